#!/usr/bin/env python3
"""Prints the seeded-change detection matrix (markdown) from /verif/seeded/*/{meta.json,description.md,detection.txt}."""
import json,os,re
rows=[]
for d in sorted(os.listdir('/verif/seeded')):
    b='/verif/seeded/'+d
    if not os.path.exists(b+'/meta.json'): continue
    m=json.load(open(b+'/meta.json'))
    desc=open(b+'/description.md').read().strip().split('\n')[0].lstrip('# ').strip()
    desc=re.sub(r'^[Cc]hange ?\d+ ?[—:-]+ ?','',desc)[:110]
    det=open(b+'/detection.txt').read() if os.path.exists(b+'/detection.txt') else ''
    obs=[re.sub(r' \((sat|unknown|timeout|unsat)\).*','',l[len('failed obligation: '):]) for l in det.split('\n') if l.startswith('failed obligation: ')]
    nv=det.count('\nVIOLATION')+ (1 if det.startswith('VIOLATION') else 0)
    rows.append((d,m['property'],desc,'; '.join('`%s`'%o for o in obs[:3])+(' …' if len(obs)>3 else ''), 'yes' if nv else 'NO'))
print('| seed | property | change | failing obligations (first three) | detected |')
print('|---|---|---|---|---|')
for r in rows: print('| %s | %s | %s | %s | %s |'%r)
