#!/bin/bash
# usage: tools_confirm_seed2.sh <seed-id> <property> <pkgdir>
# Confirms a sub-agent's seeded change delivered in /var/tmp/seedout-<seed-id>/{patch.diff,demo_test.go,description.md}
# on a fresh scratch worktree of /repo (removed afterwards) and files it under /verif/seeded/<seed-id>/.
set -u
ID=$1; PROP=$2; PKG=$3
export GOFLAGS=-mod=mod GOPROXY=off GOSUMDB=off GOTOOLCHAIN=local
O=/var/tmp/seedout-$ID; W=/var/tmp/confirm-$ID
[ -f $O/patch.diff ] && [ -f $O/demo_test.go ] && [ -f $O/description.md ] || { echo "missing deliverables in $O"; exit 2; }
git -C /repo worktree add -q --detach $W HEAD || exit 2
cd $W
git apply $O/patch.diff || { echo "apply failed"; git -C /repo worktree remove --force $W; exit 2; }
B=$(go build ./... 2>&1 | tail -3); echo "build: ${B:-ok}"
T=$(go test -vet=off -count=1 ./... 2>&1 | grep -v "^ok\|no test files" | head -5); echo "suite with change: ${T:-all ok}"
cp $O/demo_test.go $PKG/zz_seed_demo_test.go
D1=$(go test -vet=off -count=1 -run "TestSeedDemo" ./$PKG/ 2>&1 | tail -3 | tr '\n' ' '); echo "demo with change: $D1"
git apply -R $O/patch.diff
D2=$(go test -vet=off -count=1 -run "TestSeedDemo" ./$PKG/ 2>&1 | tail -2 | tr '\n' ' '); echo "demo without change: $D2"
cd /; git -C /repo worktree remove --force $W
mkdir -p /verif/seeded/$ID
cp $O/patch.diff /verif/seeded/$ID/patch.diff; cp $O/demo_test.go /verif/seeded/$ID/demo_test.go; cp $O/description.md /verif/seeded/$ID/description.md
python3 - "$ID" "$PROP" "$PKG" "${B:-ok}" "${T:-all ok}" "$D1" "$D2" <<'PY'
import json,sys
id,prop,pkg,b,t,d1,d2=sys.argv[1:8]
json.dump({"id":id,"property":prop,"package":pkg,"source":"independent sub-agent given only the property text and a scratch worktree","confirmed":{"build":b,"existing_suite_with_change":t,"demo_with_change":d1.strip(),"demo_without_change":d2.strip()}},open('/verif/seeded/%s/meta.json'%id,'w'),indent=1)
PY
