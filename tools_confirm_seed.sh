#!/bin/bash
# usage: tools_confirm_seed.sh <worktree> <N> <pkgdir> <seed-id> <property>
# Confirms a sub-agent's seeded change in its scratch worktree and files it under /verif/seeded/<seed-id>/.
set -u
W=$1; N=$2; PKG=$3; ID=$4; PROP=$5
export GOFLAGS=-mod=mod GOPROXY=off GOSUMDB=off GOTOOLCHAIN=local
cd $W || exit 2
mkdir -p /var/tmp/seedout-$ID && cp OUT/change$N.diff OUT/change${N}_demo_test.go OUT/change$N.md /var/tmp/seedout-$ID/ 
mv OUT /var/tmp/seedout-$ID/OUT.moved 2>/dev/null
restore() { git checkout -q -- $(git diff --name-only | grep -v zz_contracts_verif.go) >/dev/null 2>&1; rm -f $PKG/zz_seed_demo_test.go; }
restore
git apply /var/tmp/seedout-$ID/change$N.diff || { echo "apply failed"; exit 2; }
B=$(go build ./... 2>&1 | tail -3); echo "build: ${B:-ok}"
T=$(go test -vet=off -count=1 ./... 2>&1 | grep -v "^ok\|no test files" | head -5); echo "suite with change: ${T:-all ok}"
cp /var/tmp/seedout-$ID/change${N}_demo_test.go $PKG/zz_seed_demo_test.go
D1=$(go test -vet=off -count=1 -run "TestSeedDemo$N" ./$PKG/ 2>&1 | tail -3 | tr '\n' ' '); echo "demo with change: $D1"
restore
cp /var/tmp/seedout-$ID/change${N}_demo_test.go $PKG/zz_seed_demo_test.go
D2=$(go test -vet=off -count=1 -run "TestSeedDemo$N" ./$PKG/ 2>&1 | tail -2 | tr '\n' ' '); echo "demo without change: $D2"
restore
mv /var/tmp/seedout-$ID/OUT.moved OUT 2>/dev/null
mkdir -p /verif/seeded/$ID
cp /var/tmp/seedout-$ID/change$N.diff /verif/seeded/$ID/patch.diff
cp /var/tmp/seedout-$ID/change${N}_demo_test.go /verif/seeded/$ID/demo_test.go
cp /var/tmp/seedout-$ID/change$N.md /verif/seeded/$ID/description.md
python3 - "$ID" "$PROP" "$PKG" "${B:-ok}" "${T:-all ok}" "$D1" "$D2" <<'PY'
import json,sys
id,prop,pkg,b,t,d1,d2=sys.argv[1:8]
json.dump({"id":id,"property":prop,"package":pkg,"source":"independent sub-agent given only the property text and a scratch worktree","confirmed":{"build":b,"existing_suite_with_change":t,"demo_with_change":d1.strip(),"demo_without_change":d2.strip()}},open('/verif/seeded/%s/meta.json'%id,'w'),indent=1)
PY
rm -rf /var/tmp/seedout-$ID
