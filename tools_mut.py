#!/usr/bin/env python3
"""usage: tools_mut.py <prop> <mutfile>
mutfile: blocks separated by lines '====', each block: first line 'name|relative/file.go', then OLD text, a line '----', NEW text.
Applies each textual change to /repo (or to the copy named by VERIF_REPO), checks it compiles, runs ./check <prop>, reverts."""
import sys, subprocess, os
prop, mf = sys.argv[1], sys.argv[2]
env = dict(os.environ, GOFLAGS='-mod=mod', GOPROXY='off', GOSUMDB='off', GOTOOLCHAIN='local')
REPO = os.environ.get('VERIF_REPO', '/repo')
env.setdefault('VERIF_EVIDENCE_SUFFIX', '.mut')  # a mutant run never overwrites the evidence of the real tree
blocks = open(mf).read().split('\n====\n')
caught = missed = 0
for b in blocks:
    b = b.strip('\n')
    if not b.strip(): continue
    head, rest = b.split('\n', 1)
    name, f = head.split('|')
    old, new = (rest + '\n').split('\n----\n'); new = new.rstrip('\n')
    p = os.path.join(REPO, f)
    src = open(p).read()
    if src.count(old) != 1:
        print(f'{name}: OLD text found {src.count(old)} times, skipped'); continue
    open(p, 'w').write(src.replace(old, new))
    try:
        r = subprocess.run(['go', 'build', './...'], cwd=REPO, env=env, capture_output=True, text=True)
        if r.returncode != 0:
            print(f'{name}: does not compile: {r.stderr[:300]}'); continue
        r = subprocess.run(['./check', prop], cwd='/verif', env=env, capture_output=True, text=True, timeout=1500)
        lines = [l for l in r.stdout.splitlines() if l.startswith(('failed obl', 'VIOLATION', 'UNDECIDED', 'ENGINE'))]
        if r.returncode != 0 and any(l.startswith('VIOLATION') for l in lines):
            caught += 1
            print(f'{name}: CAUGHT  ' + '; '.join(l[:110] for l in lines if l.startswith('failed obl'))[:400])
        else:
            missed += 1
            print(f'{name}: MISSED exit={r.returncode} ' + ' '.join(lines)[:300])
    finally:
        open(p, 'w').write(src)
print(f'caught={caught} missed={missed}')
if REPO == '/repo':
    subprocess.run(['git', '-C', '/repo', 'status', '--short'])
