#!/usr/bin/env python3
"""Regenerates MANIFEST.json from props/*.json + manifest_meta.json and the hook commits in /repo."""
import json, subprocess, glob, os
base = json.load(open('/root/.vp/BASELINE.json'))
meta = json.load(open('/verif/manifest_meta.json'))
commits = subprocess.run(['git', '-C', '/repo', 'log', '--format=%H', '--grep', '^verif-hook:'], capture_output=True, text=True).stdout.split()
commits.reverse()
checks = []
claimed = []
for pid in sorted(meta['checks']):
    m = meta['checks'][pid]
    claimed.append(pid)
    checks.append({
        "property_id": pid,
        "quick_cmd": "./check %s" % pid,
        "thorough_cmd": "./check %s --tier thorough" % pid,
        "evidence_file": "/verif/evidence/%s.json" % pid,
        "replay_cmd_template": "./check %s --replay {path}" % pid,
        "engine": "govc",
        "level_claimed": {"category": "proof", "text": m["text"], "design_ref": m.get("design_ref", "DESIGN.md section 9")},
        "level_note": m["note"],
        "technique": "contract-based deductive verification: //@ contracts on the real functions, self-written VC generator over go/ssa, obligations discharged by z3 5.1.0 / z3 4.8.12 / cvc5 1.0.3",
    })
na = []
for i in range(1, 21):
    pid = "C%02d" % i
    if pid not in claimed:
        na.append({"property_id": pid, "reason": meta.get("not_applicable", {}).get(pid, "not yet claimed: contracts for this property are not built yet (see DESIGN.md section 9 for the plan)")})
man = {
    "version": 1,
    "setup_cmd": "cd /verif/engine && GOFLAGS=-mod=mod GOPROXY=off GOSUMDB=off GOTOOLCHAIN=local go build -o /verif/engine/govc .",
    "hooks": {
        "guard": "verif",
        "enable": "go/packages BuildFlags -tags=verif; the hooks are comment-only contract files <pkg>/zz_contracts_verif.go (build tag verif), so there is no object-code difference",
        "baseline_off_cmd": base["cmd"],
        "source_commits": commits,
        "add_only": True,
    },
    "engines": [{"name": "govc", "path": "/verif/engine", "serves_properties": claimed,
                 "kind_free_text": "self-written VC generator (symbolic execution over go/ssa of /repo's working tree + //@ contracts) discharging obligations with z3 4.8.12 / z3 5.1.0 / cvc5 1.0.3"}],
    "checks": checks,
    "notes": meta.get("notes", ""),
    "not_applicable": na,
}
json.dump(man, open('/verif/MANIFEST.json', 'w'), indent=1)
print("manifest: %d checks, %d not applicable, %d hook commits" % (len(checks), len(na), len(commits)))
