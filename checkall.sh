#!/bin/sh
# Runs the quick check of every claimed property and prints one summary line each.
cd /verif
for p in $(python3 -c "import json;print(' '.join(c['property_id'] for c in json.load(open('MANIFEST.json'))['checks']))"); do
  ./check $p "$@" 2>&1 | grep -E "^VIOLATION|^UNDECIDED|^ENGINE|^KNOWN|^property" | cut -c1-200
done
