package main

import (
	"fmt"
	"go/token"
	"go/types"
	"sort"
	"strings"

	"golang.org/x/tools/go/ssa"
)

// Package initialisers: the in-tree package-level tables are given their
// initial contents by symbolically executing the synthetic init functions;
// only globals that a whole-module scan finds immutable keep those contents.

func (x *Exec) inTreePackages() []*ssa.Package {
	var out []*ssa.Package
	for _, p := range x.prog.AllPackages() {
		if strings.HasPrefix(p.Pkg.Path(), modulePath) && p.Func("init") != nil && len(p.Func("init").Blocks) > 0 {
			out = append(out, p)
		}
	}
	sort.Slice(out, func(i, j int) bool { return out[i].Pkg.Path() < out[j].Pkg.Path() })
	return out
}

func newState() *State {
	st := &State{
		vals: map[ssa.Value]Val{}, cells: map[*ssa.Alloc]T{}, globals: map[*ssa.Global]T{}, heaps: map[string]T{},
		ghost: map[string]T{}, cut: map[*ssa.BasicBlock]bool{}, closures: map[string]*FnVal{}, modHeaps: map[string]bool{},
	}
	st.next = declConst("next0", SInt)
	st.assume(app(SBool, ">", st.next, mkInt(0)))
	return st
}

// baseState returns (a clone of) the post-initialisation state.
func (x *Exec) baseState() *State {
	if x.initBase != nil {
		return x.initBase.clone()
	}
	st := newState()
	st.ev = nil
	st.concreteAlloc = true
	st.next = mkInt(1000) // objects allocated by initialisers get concrete, pairwise distinct references
	x.immutable = x.scanImmutable()
	x.inInit = true
	inInitPhase = true
	for _, p := range x.inTreePackages() {
		if guard, ok := p.Members["init$guard"].(*ssa.Global); ok {
			st.globals[guard] = mkBool(false)
		}
	}
	for _, p := range x.inTreePackages() {
		init := p.Func("init")
		guard, _ := p.Members["init$guard"].(*ssa.Global)
		if guard != nil {
			if g, ok := st.globals[guard]; ok && g.S == "true" {
				continue
			}
		}
		saved := st.clone()
		ok := x.runInit(st, init)
		if !ok {
			st = saved
			x.note("package initialiser of %s could not be executed symbolically: its globals are unconstrained", p.Pkg.Path())
		}
	}
	x.inInit = false
	// mutable globals lose their values (and, one level deep, their contents)
	for g, v := range st.globals {
		if strings.HasSuffix(g.Name(), "init$guard") {
			delete(st.globals, g)
			continue
		}
		if x.immutable[g] {
			continue
		}
		t := deref(g.Type())
		nv := fresh("G "+g.Name(), sortOf(t))
		st.assume(typingFact(t, nv))
		st.globals[g] = nv
		x.havocContents(st, t, v)
	}
	st.vals = map[ssa.Value]Val{}
	st.cells = map[*ssa.Alloc]T{}
	st.defers = nil
	st.concreteAlloc = false
	convertInitHeaps(st)
	inInitPhase = false
	x.initBase = st
	return st.clone()
}

func (x *Exec) havocContents(st *State, t types.Type, ref T) {
	switch u := t.Underlying().(type) {
	case *types.Map:
		for _, n := range []string{mapDomName(t), mapValName(t)} {
			if h, ok := st.heaps[n]; ok {
				st.setHeap(n, store(h, ref, fresh("hv", arrayElemSort(h.Sort))))
			}
		}
	case *types.Slice:
		n := arrHeapName(u.Elem())
		if h, ok := st.heaps[n]; ok {
			st.setHeap(n, store(h, sliceArr(ref), fresh("hv", arrayElemSort(h.Sort))))
		}
	case *types.Pointer:
		if isStruct(u.Elem()) {
			for _, l := range structLeaves(u.Elem()) {
				n := fieldHeapName(u.Elem(), l.name())
				if h, ok := st.heaps[n]; ok {
					st.setHeap(n, store(h, ref, fresh("hv", arrayElemSort(h.Sort))))
				}
			}
		}
	}
}

func (x *Exec) runInit(st *State, init *ssa.Function) (ok bool) {
	defer func() {
		if r := recover(); r != nil {
			switch r.(type) {
			case outsideSubset, specErr:
				ok = false
				return
			}
			panic(r)
		}
	}()
	var finals []*State
	fr := &Frame{fn: init, entryNext: st.next}
	fr.onReturn = func(s *State, _ []Val) { finals = append(finals, s) }
	x.dry++ // no obligations are generated for initialisers
	defer func() { x.dry-- }()
	savedFrame := x.dryFrame
	x.dryFrame = nil
	defer func() { x.dryFrame = savedFrame }()
	x.curFn = init
	x.runBlock(st, fr, init.Blocks[0])
	if len(finals) != 1 {
		return false
	}
	*st = *finals[0]
	return true
}

// scanImmutable finds package-level variables of in-tree packages that are
// never written (nor have their address or reference contents escape to a
// writer) outside package initialisers.
func (x *Exec) scanImmutable() map[*ssa.Global]bool {
	pureExternalCallee = func(f *ssa.Function) bool {
		if f == nil || x.isInTree(f) {
			return false
		}
		c := x.contractFor(f)
		if c == nil || !c.External || c.ModAll || len(c.Modifies) > 0 {
			return false
		}
		for _, vc := range x.variants[f.String()] {
			if vc.ModAll || len(vc.Modifies) > 0 {
				return false
			}
		}
		return true
	}
	mutable := map[*ssa.Global]bool{}
	all := map[*ssa.Global]bool{}
	for _, p := range x.prog.AllPackages() {
		if !strings.HasPrefix(p.Pkg.Path(), modulePath) {
			continue
		}
		for _, m := range p.Members {
			if g, ok := m.(*ssa.Global); ok {
				all[g] = true
			}
		}
	}
	var visit func(f *ssa.Function)
	seen := map[*ssa.Function]bool{}
	visit = func(f *ssa.Function) {
		if f == nil || seen[f] {
			return
		}
		seen[f] = true
		isInit := f.Synthetic == "package initializer"
		for _, b := range f.Blocks {
			for _, ins := range b.Instrs {
				for _, op := range ins.Operands(nil) {
					g, ok := (*op).(*ssa.Global)
					if !ok || !all[g] {
						continue
					}
					if isInit {
						continue
					}
					if !readOnlyUse(ins, g) {
						mutable[g] = true
					}
				}
			}
		}
		for _, a := range f.AnonFuncs {
			visit(a)
		}
	}
	for _, p := range x.prog.AllPackages() {
		if !strings.HasPrefix(p.Pkg.Path(), modulePath) {
			continue
		}
		for _, m := range p.Members {
			switch v := m.(type) {
			case *ssa.Function:
				visit(v)
			case *ssa.Type:
				for _, t := range []types.Type{v.Type(), types.NewPointer(v.Type())} {
					ms := x.prog.MethodSets.MethodSet(t)
					for i := 0; i < ms.Len(); i++ {
						visit(x.prog.MethodValue(ms.At(i)))
					}
				}
			}
		}
	}
	out := map[*ssa.Global]bool{}
	for g := range all {
		if !mutable[g] {
			out[g] = true
		}
	}
	return out
}

// readOnlyUse: the instruction loads the global and every use of the loaded
// value only reads through it.
func readOnlyUse(ins ssa.Instruction, g *ssa.Global) bool {
	switch v := ins.(type) {
	case *ssa.DebugRef:
		return true
	case *ssa.UnOp:
		if v.Op != token.MUL || v.X != g {
			return false
		}
		return readOnlyValue(v, 0)
	case *ssa.FieldAddr:
		// &G.f : only loads allowed
		return readOnlyAddr(v)
	case *ssa.IndexAddr:
		return readOnlyAddr(v)
	}
	return false
}

func readOnlyAddr(v ssa.Value) bool {
	refs := v.Referrers()
	if refs == nil {
		return false
	}
	for _, r := range *refs {
		switch u := r.(type) {
		case *ssa.DebugRef:
		case *ssa.UnOp:
			if u.Op != token.MUL {
				return false
			}
			if !readOnlyValue(u, 1) {
				return false
			}
		case *ssa.FieldAddr:
			if !readOnlyAddr(u) {
				return false
			}
		case *ssa.IndexAddr:
			if !readOnlyAddr(u) {
				return false
			}
		default:
			return false
		}
	}
	return true
}

func readOnlyValue(v ssa.Value, depth int) bool {
	if depth > 4 {
		return false
	}
	// error values (sentinel errors) cannot be mutated through the interface: any use of the loaded value is a read
	if types.Identical(v.Type(), types.Universe.Lookup("error").Type()) {
		return true
	}
	refs := v.Referrers()
	if refs == nil {
		return true
	}
	refType := false
	switch v.Type().Underlying().(type) {
	case *types.Map, *types.Slice, *types.Pointer, *types.Interface, *types.Signature, *types.Chan:
		refType = true
	}
	for _, r := range *refs {
		switch u := r.(type) {
		case *ssa.DebugRef:
		case *ssa.Lookup:
			if u.X != v && refType {
				return false
			}
		case *ssa.Range, *ssa.Next, *ssa.Extract:
		case *ssa.BinOp, *ssa.If:
		case *ssa.Index:
		case *ssa.IndexAddr:
			if u.X == v {
				if !readOnlyAddr(u) {
					return false
				}
			}
		case *ssa.Call:
			if b, ok := u.Common().Value.(*ssa.Builtin); ok && (b.Name() == "len" || b.Name() == "cap") {
				continue
			}
			if !refType {
				continue // passed by value: scalars, strings, structs without refs are safe enough
			}
			// function values being called are fine
			if u.Common().Value == v {
				continue
			}
			// passed to a function outside the module whose assumed contract modifies nothing
			if pureExternalCallee != nil && pureExternalCallee(u.Common().StaticCallee()) {
				continue
			}
			return false
		case *ssa.Store:
			if u.Val == v && refType {
				// stored into a local variable: follow loads of that local? be conservative
				if a, ok := u.Addr.(*ssa.Alloc); ok && !a.Heap {
					if !readOnlyAddrLocal(a, depth) {
						return false
					}
					continue
				}
				return false
			}
			if u.Addr == v {
				return false
			}
		case *ssa.MakeInterface, *ssa.ChangeType, *ssa.Convert, *ssa.Phi, *ssa.Return, *ssa.MapUpdate, *ssa.MakeClosure, *ssa.Slice:
			if refType {
				if mu, ok := u.(*ssa.MapUpdate); ok && mu.Map != v && !isRefValue(v) {
					continue
				}
				return false
			}
		default:
			if refType {
				return false
			}
		}
	}
	return true
}

func isRefValue(v ssa.Value) bool { return true }

// pureExternalCallee: set by scanImmutable; a statically known callee outside the module whose
// (assumed) contract - in every variant - has no modifies clause.
var pureExternalCallee func(f *ssa.Function) bool

// readOnlyAddrLocal: a local variable holding the reference is only read.
func readOnlyAddrLocal(a *ssa.Alloc, depth int) bool {
	refs := a.Referrers()
	if refs == nil {
		return true
	}
	for _, r := range *refs {
		switch u := r.(type) {
		case *ssa.DebugRef, *ssa.Store:
		case *ssa.UnOp:
			if !readOnlyValue(u, depth+1) {
				return false
			}
		default:
			_ = u
			return false
		}
	}
	return true
}

var _ = fmt.Sprintf
