package main

import (
	"crypto/sha256"
	"encoding/hex"
	"encoding/json"
	"flag"
	"fmt"
	"go/types"
	"os"
	"path/filepath"
	"regexp"
	"runtime"
	"sort"
	"strconv"
	"strings"
	"time"

	"golang.org/x/tools/go/ssa"
)

const verifDir = "/verif"

type Plan struct {
	Property   string   `json:"property"`
	Packages   []string `json:"packages"`
	Functions  []string `json:"functions"`
	Lemmas     []string `json:"lemmas"`
	Tables     []string `json:"tables"`
	Scans      []string `json:"scans"`
	NotDecided []string `json:"not_decided"`
	Bounded    []string `json:"bounded"`
	Notes      []string `json:"notes"`
}

type Finding struct {
	Status     string `json:"status"` // fixed | finding
	Property   string `json:"property"`
	Obligation string `json:"obligation"`
	Witness    string `json:"witness"`
	Commit     string `json:"commit"`
	What       string `json:"what"`
}

func main() {
	if len(os.Args) < 2 {
		usage()
	}
	switch os.Args[1] {
	case "check":
		os.Exit(cmdCheck(os.Args[2:]))
	case "dump":
		os.Exit(cmdDump(os.Args[2:]))
	default:
		usage()
	}
}

func usage() {
	fmt.Fprintln(os.Stderr, "usage: govc check <Cxx> [--tier quick|thorough] [--write-ledger] [--replay file] [--only regexp] [--keep]\n       govc dump <pkgpattern> [func]")
	os.Exit(2)
}

func cmdDump(args []string) int {
	x, err := loadProgram([]string{args[0]})
	if err != nil {
		fmt.Fprintln(os.Stderr, err)
		return 2
	}
	var all []*ssa.Function
	seen := map[*ssa.Function]bool{}
	var walk func(f *ssa.Function)
	walk = func(f *ssa.Function) {
		if f == nil || seen[f] {
			return
		}
		seen[f] = true
		all = append(all, f)
		for _, a := range f.AnonFuncs {
			walk(a)
		}
	}
	for _, p := range x.prog.AllPackages() {
		if !strings.HasPrefix(p.Pkg.Path(), modulePath) {
			continue
		}
		for _, m := range p.Members {
			switch v := m.(type) {
			case *ssa.Function:
				walk(v)
			case *ssa.Type:
				for _, t := range []types.Type{v.Type(), types.NewPointer(v.Type())} {
					ms := x.prog.MethodSets.MethodSet(t)
					for i := 0; i < ms.Len(); i++ {
						walk(x.prog.MethodValue(ms.At(i)))
					}
				}
			}
		}
	}
	sort.Slice(all, func(i, j int) bool { return all[i].String() < all[j].String() })
	for _, g := range all {
		if len(g.Blocks) == 0 {
			continue
		}
		if len(args) > 1 {
			if !strings.Contains(g.String(), args[1]) {
				continue
			}
			g.WriteTo(os.Stdout)
			li := x.loops(g)
			for i, h := range li.headers {
				fmt.Printf("# loop %d: header block %d (%s)\n", i+1, h.Index, h.Comment)
			}
		} else {
			fmt.Println(g.String())
		}
	}
	return 0
}

func cmdCheck(args []string) int {
	fs := flag.NewFlagSet("check", flag.ExitOnError)
	tier := fs.String("tier", "", "quick|thorough")
	writeLedger := fs.Bool("write-ledger", false, "write the ledger from this run")
	replay := fs.String("replay", "", "replay file")
	only := fs.String("only", "", "only functions matching")
	keep := fs.Bool("keep", false, "keep SMT files of failing obligations in .work")
	verbose := fs.Bool("v", false, "verbose")
	dump := fs.String("dump", "", "write the SMT scripts of checks whose name matches to .work")
	dumpLevel := fs.Int("dump-level", -1, "relevance level of the dumped scripts (-1: full)")
	genOnly := fs.Bool("gen-only", false, "generate the obligations, print the engine's notes, do not call a solver (development aid; exits 3)")
	if len(args) < 1 {
		usage()
	}
	prop := args[0]
	fs.Parse(args[1:])
	if *tier == "" {
		*tier = os.Getenv("VERIF_TIER")
	}
	if *tier == "" {
		*tier = "quick"
	}
	seed := 0
	if s := os.Getenv("VERIF_SEED"); s != "" {
		seed, _ = strconv.Atoi(s)
	}
	if *replay != "" {
		return cmdReplay(prop, *replay)
	}
	t0 := time.Now()
	plan, err := readPlan(prop)
	if err != nil {
		fmt.Println("ENGINE-ERROR", err)
		return 2
	}
	x, err := loadProgram(plan.Packages)
	if err != nil {
		fmt.Println("ENGINE-ERROR load:", err)
		return 2
	}
	if err := x.loadSpecs(filepath.Join(verifDir, "external")); err != nil {
		fmt.Println("ENGINE-ERROR specs:", err)
		return 2
	}
	if err := x.registerAxioms(); err != nil {
		fmt.Println("ENGINE-ERROR axioms:", err)
		return 2
	}
	loadSecs := time.Since(t0).Seconds()
	var reports []FuncReport
	var onlyRe *regexp.Regexp
	if *only != "" {
		onlyRe = regexp.MustCompile(*only)
	}
	fnHashes := map[string]string{}
	for _, name := range plan.Functions {
		if onlyRe != nil && !onlyRe.MatchString(name) {
			continue
		}
		f := x.findFunction(name)
		if f == nil {
			reports = append(reports, FuncReport{Name: name, Err: "function not found in the working tree"})
			continue
		}
		rep := x.verifyFunction(f)
		reports = append(reports, rep)
		var sb strings.Builder
		f.WriteTo(&sb)
		h := sha256.Sum256([]byte(sb.String()))
		fnHashes[name] = hex.EncodeToString(h[:8])
	}
	x.extraChecks(plan, onlyRe)
	genSecs := time.Since(t0).Seconds() - loadSecs
	opts := dischargeOpts{timeoutMs: 4000, thorough: *tier == "thorough", seed: seed, jobs: runtime.NumCPU()}
	if opts.thorough {
		opts.timeoutMs = 30000
		opts.jobs = runtime.NumCPU() / 2
	}
	if *dump != "" {
		re := regexp.MustCompile(*dump)
		os.MkdirAll(filepath.Join(verifDir, ".work"), 0o755)
		n := 0
		for _, c := range x.checks {
			if re.MatchString(c.Name) {
				n++
				os.WriteFile(filepath.Join(verifDir, ".work", fmt.Sprintf("dump_%s_%d.smt2", sanitize(c.Name), n)), []byte(c.ScriptLevel(10000, false, *dumpLevel)), 0o644)
			}
		}
	}
	if *genOnly {
		var ns []string
		for n := range x.notes {
			ns = append(ns, n)
		}
		sort.Strings(ns)
		for _, n := range ns {
			fmt.Println("  note:", n)
		}
		for _, r := range reports {
			fmt.Printf("  func %-60s paths=%d checks=%d %s\n", r.Name, r.Paths, r.Checks, r.Err)
		}
		os.Exit(3)
	}
	opts.hints = readHints(prop)
	obls, covers, stats := discharge(x.checks, opts)
	solveSecs := time.Since(t0).Seconds() - loadSecs - genSecs

	// ---- decide
	exit := 0
	var lines []string
	undecided := false
	for _, r := range reports {
		if r.Err != "" {
			lines = append(lines, fmt.Sprintf("UNDECIDED property=%s function=%s: %s", prop, r.Name, r.Err))
			undecided = true
		}
	}
	for _, e := range x.lemmaErrs {
		lines = append(lines, fmt.Sprintf("UNDECIDED property=%s %s", prop, e))
		undecided = true
	}
	// vacuity
	for _, r := range reports {
		if r.Err != "" {
			continue
		}
		req := covers[r.Name+"/cover/requires"]
		for _, in := range req {
			if in.Result.Status == "unsat" {
				lines = append(lines, fmt.Sprintf("ENGINE-ERROR property=%s vacuous precondition in %s", prop, r.Name))
				undecided = true
			}
		}
		rets := covers[r.Name+"/cover/return"]
		reach := false
		for _, in := range rets {
			if in.Result.Status != "unsat" {
				reach = true
			}
		}
		if !reach {
			lines = append(lines, fmt.Sprintf("ENGINE-ERROR property=%s no reachable return path in %s (vacuous)", prop, r.Name))
			undecided = true
		}
	}
	// contract applications must not make feasible paths infeasible
	for name, afters := range covers {
		i := strings.Index(name, "/cover/after:")
		if i < 0 {
			continue
		}
		anyAfter := false
		for _, in := range afters {
			if in.Result.Status != "unsat" {
				anyAfter = true
			}
		}
		if anyAfter {
			continue
		}
		befores := covers[name[:i]+"/cover/before:"+name[i+len("/cover/after:"):]]
		for _, in := range befores {
			if in.Result.Status == "sat" {
				lines = append(lines, fmt.Sprintf("ENGINE-ERROR property=%s contract applied at %s makes every path infeasible (vacuous): %s", prop, in.Check.Where, name))
				undecided = true
				break
			}
		}
	}
	ledger := readLedger(prop)
	findings := readFindings()
	generated := map[string]*Obligation{}
	for _, ob := range obls {
		generated[ob.Name] = ob
	}
	discharged := 0
	violations := 0
	var failedNames []string
	os.MkdirAll(filepath.Join(verifDir, "replays", prop), 0o755)
	for _, ob := range obls {
		if ob.Status == "discharged" {
			discharged++
			continue
		}
		failedNames = append(failedNames, ob.Name)
		if f := matchFinding(findings, prop, ob); f != nil {
			lines = append(lines, fmt.Sprintf("KNOWN-FINDING: property=%s %s %s", prop, ob.Name, f.Witness))
			continue
		}
		if ob.Fail != nil && ob.Fail.Result.Status == "disagree" {
			lines = append(lines, fmt.Sprintf("ENGINE-ERROR property=%s solvers disagree on %s (%s)", prop, ob.Name, ob.Fail.Result.Solver))
			undecided = true
			continue
		}
		rp, reproduced := writeReplay(x, prop, ob, ledger, *keep)
		violations++
		suffix := ""
		if !reproduced {
			suffix = " no-failing-input-found"
		}
		lines = append(lines, fmt.Sprintf("failed obligation: %s (%s) at %s", ob.Name, ob.Fail.Result.Status, ob.Where))
		lines = append(lines, fmt.Sprintf("VIOLATION property=%s replay=%s%s", prop, rp, suffix))
		exit = 1
	}
	// ledger obligations that must exist
	for _, name := range ledger {
		if _, ok := generated[name]; ok {
			continue
		}
		if optionalKind(name) {
			continue
		}
		fnOK := true
		for _, r := range reports {
			if strings.HasPrefix(name, r.Name+"/") && r.Err != "" {
				fnOK = false
			}
		}
		if fnOK && onlyRe == nil && !*writeLedger {
			lines = append(lines, fmt.Sprintf("UNDECIDED property=%s ledger obligation %s was not generated", prop, name))
			undecided = true
		}
	}
	if len(obls) == 0 {
		lines = append(lines, fmt.Sprintf("ENGINE-ERROR property=%s no obligations generated", prop))
		undecided = true
	}
	if undecided && exit == 0 {
		exit = 2
	}
	for _, l := range lines {
		fmt.Println(l)
	}
	wall := time.Since(t0).Seconds()
	if *writeLedger && exit == 0 {
		var names []string
		for _, ob := range obls {
			if ob.Status == "discharged" {
				names = append(names, ob.Name)
			}
		}
		hints := map[string][]string{}
		for _, ob := range obls {
			if ob.Status != "discharged" {
				continue
			}
			seen := map[string]bool{}
			for _, in := range ob.Instances {
				rung := in.Result.Solver
				// only rungs that took effort are worth remembering (the first rung is tried anyway)
				// the rung the ladder starts with anyway need not be remembered
				first := "z3-5.1.0/rel0"
				if in.Check.Focus != "" {
					first = "z3-5.1.0/rel30"
				}
				if rung == "" || seen[rung] || rung == first {
					continue
				}
				seen[rung] = true
				hints[ob.Name] = append(hints[ob.Name], rung)
			}
			sort.Strings(hints[ob.Name])
		}
		writeLedgerFile(prop, names, hints)
	}
	if onlyRe == nil {
		writeEvidence(x, plan, prop, *tier, seed, obls, covers, reports, stats, discharged, violations, wall, loadSecs, genSecs, solveSecs, fnHashes, failedNames, lines)
	}
	if *verbose {
		type slow struct {
			name string
			secs float64
			st   string
		}
		var sl []slow
		for _, ob := range obls {
			for _, in := range ob.Instances {
				t := 0.0
				for _, tr := range in.Tried {
					t += tr.Secs
				}
				sl = append(sl, slow{ob.Name, t, in.Result.Status + " by " + in.Result.Solver})
			}
		}
		for n, l := range covers {
			for _, in := range l {
				sl = append(sl, slow{n, in.Result.Secs, in.Result.Status})
			}
		}
		sort.Slice(sl, func(i, j int) bool { return sl[i].secs > sl[j].secs })
		for i := 0; i < len(sl) && i < 12; i++ {
			fmt.Printf("  slow %.2fs %s %s\n", sl[i].secs, sl[i].st, sl[i].name)
		}
	}
	if *verbose {
		for n := range x.notes {
			if strings.Contains(n, "UNSPECIFIED") || strings.Contains(n, "no invariant") {
				fmt.Println("  note:", n)
			}
		}
	}
	if *verbose || exit != 0 {
		for _, r := range reports {
			fmt.Printf("  func %-60s paths=%d checks=%d %s\n", r.Name, r.Paths, r.Checks, r.Err)
		}
		for _, ob := range obls {
			if ob.Status != "discharged" || *verbose {
				fmt.Printf("  %-10s %-80s inst=%d %.2fs %s\n", ob.Status, ob.Name, len(ob.Instances), ob.Secs, ob.Where)
			}
		}
	}
	fmt.Printf("property %s tier=%s: %d obligations, %d discharged, %d violations, %d functions; load %.1fs gen %.1fs solve %.1fs total %.1fs\n",
		prop, *tier, len(obls), discharged, violations, len(reports), loadSecs, genSecs, solveSecs, wall)
	return exit
}

// deadSiteOK: return sites a contract declares unreachable (flag deadreturn=file:line).
func (x *Exec) deadSiteOK(fn, site string) bool {
	for _, c := range x.contracts {
		for _, a := range c.FlagArgs["deadreturn"] {
			if a == site {
				return true
			}
		}
	}
	return false
}

func optionalKind(name string) bool {
	i := strings.Index(name, "/")
	if i < 0 {
		return false
	}
	k := name[i+1:]
	return strings.HasPrefix(k, "nopanic/") || strings.HasPrefix(k, "call:") || strings.HasPrefix(k, "arith/") || strings.HasPrefix(k, "conv/") || k == "frame" || strings.HasPrefix(k, "lock/")
}

func readPlan(prop string) (*Plan, error) {
	data, err := os.ReadFile(filepath.Join(verifDir, "props", prop+".json"))
	if err != nil {
		return nil, err
	}
	var p Plan
	if err := json.Unmarshal(data, &p); err != nil {
		return nil, err
	}
	return &p, nil
}

// readHints: per obligation, the ladder rungs that discharged it when the ledger was written
// (tried first; any `unsat` counts, so a stale hint costs time only).
func readHints(prop string) map[string][]string {
	out := map[string][]string{}
	files, _ := filepath.Glob(filepath.Join(verifDir, "ledger", "*.json"))
	sort.Strings(files)
	// obligation names are structural, so a rung remembered under another property helps here too;
	// this property's own ledger wins
	own := filepath.Join(verifDir, "ledger", prop+".json")
	for _, f := range append(files, own) {
		data, err := os.ReadFile(f)
		if err != nil {
			continue
		}
		var l struct {
			Hints map[string][]string `json:"hints"`
		}
		if json.Unmarshal(data, &l) != nil {
			continue
		}
		for k, v := range l.Hints {
			out[k] = v
		}
	}
	return out
}

func readLedger(prop string) []string {
	data, err := os.ReadFile(filepath.Join(verifDir, "ledger", prop+".json"))
	if err != nil {
		return nil
	}
	var l struct {
		Obligations []string `json:"obligations"`
	}
	json.Unmarshal(data, &l)
	return l.Obligations
}

func writeLedgerFile(prop string, names []string, hints map[string][]string) {
	sort.Strings(names)
	os.MkdirAll(filepath.Join(verifDir, "ledger"), 0o755)
	data, _ := json.MarshalIndent(map[string]interface{}{"property": prop, "obligations": names, "hints": hints}, "", " ")
	os.WriteFile(filepath.Join(verifDir, "ledger", prop+".json"), append(data, '\n'), 0o644)
}

func readFindings() []Finding {
	data, err := os.ReadFile(filepath.Join(verifDir, "known_findings.txt"))
	if err != nil {
		return nil
	}
	var out []Finding
	for _, l := range strings.Split(string(data), "\n") {
		l = strings.TrimSpace(l)
		if l == "" || strings.HasPrefix(l, "#") {
			continue
		}
		var f Finding
		switch {
		case strings.HasPrefix(l, "fixed:"):
			f.Status = "fixed"
			l = strings.TrimSpace(l[len("fixed:"):])
		case strings.HasPrefix(l, "finding:"):
			f.Status = "finding"
			l = strings.TrimSpace(l[len("finding:"):])
		default:
			continue
		}
		fields := strings.Fields(l)
		for _, fl := range fields {
			if strings.HasPrefix(fl, "property=") {
				f.Property = fl[len("property="):]
			}
			if strings.HasPrefix(fl, "obligation=") {
				f.Obligation = fl[len("obligation="):]
			}
		}
		f.What = l
		f.Witness = l
		out = append(out, f)
	}
	return out
}

func matchFinding(fs []Finding, prop string, ob *Obligation) *Finding {
	for i := range fs {
		f := &fs[i]
		if f.Status == "finding" && f.Property == prop && f.Obligation == ob.Name {
			return f
		}
	}
	return nil
}

func sanitize(s string) string {
	re := regexp.MustCompile(`[^A-Za-z0-9_.#-]+`)
	return re.ReplaceAllString(s, "_")
}

func inLedger(l []string, n string) bool {
	for _, s := range l {
		if s == n {
			return true
		}
	}
	return false
}

func writeReplay(x *Exec, prop string, ob *Obligation, ledger []string, keep bool) (string, bool) {
	path := filepath.Join(verifDir, "replays", prop, sanitize(ob.Name)+".json")
	in := ob.Fail
	rec := map[string]interface{}{
		"property":   prop,
		"obligation": ob.Name,
		"function":   in.Check.Fn,
		"where":      in.Check.Where,
		"detail":     in.Check.Detail,
		"status":     in.Result.Status,
		"solver":     in.Result.Solver,
		"in_ledger":  inLedger(ledger, ob.Name),
	}
	if !inLedger(ledger, ob.Name) {
		rec["note"] = "new-obligation"
	}
	script := in.Check.Script(5000, false)
	h := sha256.Sum256([]byte(script))
	rec["smt_sha256"] = hex.EncodeToString(h[:])
	rec["solver_output"] = summarizeModel(in.Result.Output)
	var tried []string
	for _, t := range in.Tried {
		tried = append(tried, fmt.Sprintf("%s: %s (%.2fs)", t.Solver, t.Status, t.Secs))
	}
	rec["solvers_tried"] = tried
	os.MkdirAll(filepath.Join(verifDir, ".work"), 0o755)
	smtPath := filepath.Join(verifDir, ".work", sanitize(prop+"_"+ob.Name)+".smt2")
	os.WriteFile(smtPath, []byte(script), 0o644)
	rec["smt_file"] = smtPath
	reproduced := false
	if in.Result.Status == "sat" {
		model := parseModel(in.Result.Output)
		rec["model"] = modelSummary(model)
		ok, out, test, vals := runAdapter(x, prop, ob, in, model)
		rec["replay_output"] = out
		rec["replay_adapter"] = test
		rec["model_values"] = vals
		reproduced = ok
	}
	rec["reproduced_on_real_code"] = reproduced
	if !reproduced {
		rec["verdict"] = "no-failing-input-found"
	} else {
		rec["verdict"] = "failing input replayed on the real code"
	}
	data, _ := json.MarshalIndent(rec, "", " ")
	os.WriteFile(path, append(data, '\n'), 0o644)
	return path, reproduced
}

func writeEvidence(x *Exec, plan *Plan, prop, tier string, seed int, obls []*Obligation, covers map[string][]*Instance, reports []FuncReport, stats map[string]float64, discharged, violations int, wall, loadSecs, genSecs, solveSecs float64, fnHashes map[string]string, failed []string, lines []string) {
	byKind := map[string]int{}
	byBackend := map[string]int{}
	var slowest *Obligation
	instances := 0
	for _, ob := range obls {
		k := ob.Name[strings.Index(ob.Name, "/")+1:]
		k = regexp.MustCompile(`#\d+`).ReplaceAllString(k, "")
		k = regexp.MustCompile(`call:[^/]+`).ReplaceAllString(k, "call")
		byKind[k]++
		for b, n := range ob.Backends {
			byBackend[b] += n
		}
		instances += len(ob.Instances)
		if slowest == nil || ob.Secs > slowest.Secs {
			slowest = ob
		}
	}
	var samples []interface{}
	for i, ob := range obls {
		if i%max(1, len(obls)/6) == 0 && len(samples) < 8 {
			s := map[string]interface{}{"obligation": ob.Name, "status": ob.Status, "instances": len(ob.Instances), "where": ob.Where, "goal": ob.Detail}
			if len(ob.Instances) > 0 {
				sc := ob.Instances[0].Check.Script(5000, false)
				h := sha256.Sum256([]byte(sc))
				s["smt_sha256"] = hex.EncodeToString(h[:])
				if len(samples) == 0 {
					if len(sc) > 6000 {
						sc = sc[:6000] + "\n;...[truncated]"
					}
					s["vc"] = sc
				}
			}
			samples = append(samples, s)
		}
	}
	var funcs []map[string]interface{}
	for _, r := range reports {
		funcs = append(funcs, map[string]interface{}{"name": r.Name, "paths": r.Paths, "checks": r.Checks, "ssa_hash": fnHashes[r.Name], "error": r.Err})
	}
	coverOK, coverN := 0, 0
	for _, l := range covers {
		for _, in := range l {
			coverN++
			if in.Result.Status == "sat" {
				coverOK++
			}
		}
	}
	var assumptions []string
	for n := range x.notes {
		assumptions = append(assumptions, n)
	}
	for n := range x.used {
		assumptions = append(assumptions, "assumed external contract: "+n)
	}
	for _, a := range x.axiomNames {
		assumptions = append(assumptions, "assumed axiom "+a)
	}
	assumptions = append(assumptions,
		"go/ssa (x/tools v0.29.0) implements the Go specification; the VC generator (/verif/engine) is correct",
		"slice/string lengths are at most 2^47",
		"partial correctness only: termination is not proved",
		"single-threaded semantics: goroutine interleavings are not modelled",
		"logging calls (zerolog, log, otel) have no effect on verified state")
	sort.Strings(assumptions)
	slow := map[string]interface{}{}
	if slowest != nil {
		slow = map[string]interface{}{"obligation": slowest.Name, "secs": slowest.Secs}
	}
	cov := map[string]interface{}{
		"obligations":              len(obls),
		"discharged":               discharged,
		"checker_cmd":              fmt.Sprintf("./check %s --tier %s", prop, tier),
		"trusted_base":             []string{"go/ssa v0.29.0", "govc VC generator (/verif/engine)", "z3 5.1.0 / z3 4.8.12 / cvc5 1.0.3", "external contracts in /verif/external/*.spec (assumed, listed under assumptions)"},
		"obligation_instances":     instances,
		"functions_under_contract": funcs,
		"by_kind":                  byKind,
		"by_backend":               byBackend,
		"solver_seconds":           stats,
		"slowest":                  slow,
		"samples":                  samples,
		"not_decided":              plan.NotDecided,
		"bounded_standins":         plan.Bounded,
		"failed_obligations":       failed,
		"vacuity":                  map[string]int{"cover_checks": coverN, "cover_sat": coverOK},
		"timing":                   map[string]float64{"load_s": loadSecs, "vcgen_s": genSecs, "solve_s": solveSecs},
		"report_lines":             lines,
	}
	if st := os.Getenv("VERIF_SELFTEST"); st != "" {
		// thorough tier: what the wrapper's seed runs and must-fail corpus (run before this one) found
		cov["selftest"] = st
	}
	ev := map[string]interface{}{
		"property_id": prop,
		"tier":        tier,
		"seed":        seed,
		"level":       "proof",
		"coverage":    cov,
		"assumptions": assumptions,
		"wall_s":      wall,
		"violations":  violations,
	}
	os.MkdirAll(filepath.Join(verifDir, "evidence"), 0o755)
	data, _ := json.MarshalIndent(ev, "", " ")
	suffix := os.Getenv("VERIF_EVIDENCE_SUFFIX")
	if r := os.Getenv("VERIF_REPO"); suffix == "" && r != "" && filepath.Clean(r) != "/repo" {
		// a run on a scratch copy (mutant corpus, seeded change) never overwrites the evidence of /repo
		suffix = ".scratch"
	}
	os.WriteFile(filepath.Join(verifDir, "evidence", prop+".json"+suffix), append(data, '\n'), 0o644)
}
