package main

import (
	"fmt"
	"os"

	"golang.org/x/tools/go/packages"
	"golang.org/x/tools/go/ssa"
	"golang.org/x/tools/go/ssa/ssautil"
)

func main() {
	cfg := &packages.Config{Mode: packages.LoadAllSyntax, Dir: "/repo", BuildFlags: []string{"-tags=verif"}}
	pkgs, err := packages.Load(cfg, os.Args[1])
	if err != nil {
		panic(err)
	}
	prog, spkgs := ssautil.AllPackages(pkgs, ssa.NaiveForm|ssa.GlobalDebug)
	prog.Build()
	for _, p := range spkgs {
		if p == nil {
			continue
		}
		for _, m := range p.Members {
			if f, ok := m.(*ssa.Function); ok && (len(os.Args) < 3 || f.Name() == os.Args[2]) {
				f.WriteTo(os.Stdout)
				for _, af := range f.AnonFuncs {
					af.WriteTo(os.Stdout)
				}
			}
		}
	}
	fmt.Println("ok")
}
