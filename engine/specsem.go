package main

import (
	"fmt"
	"go/constant"
	"go/types"
	"math/big"
	"strings"

	"golang.org/x/tools/go/ssa"
)

// SV is the value of a contract expression.
type SV struct {
	t      T
	typ    types.Type // Go type, nil for purely logical values
	addr   *Addr      // unloaded struct location (lazy)
	isNil  bool
	isType bool
	ty     types.Type
	set    []SV
	fnName string // a function used as a value
	ptrTo  *Addr  // a pointer argument that addresses a part of a heap object (interior pointer)
}

type specErr struct{ msg string }

func (e specErr) Error() string { return e.msg }

func sfail(format string, args ...interface{}) {
	panic(specErr{fmt.Sprintf(format, args...)})
}

// EvalCtx evaluates contract expressions in a state.
type EvalCtx struct {
	x    *Exec
	st   *State // current state
	old  *State // pre-state for old(...)
	env  map[string]SV
	pkg  *types.Package // package for resolving unqualified names
	sf   *SpecFile
	lets map[string]Expr
	fn   *ssa.Function
	// bound variables get priority
	depth  int
	entry  *State // loop-entry state for entry(...)
	locals *Frame // when set, local variables of this frame are visible by name
	bound  map[string]bool
}

func (c *EvalCtx) with(name string, v SV) *EvalCtx {
	n := *c
	n.env = make(map[string]SV, len(c.env)+1)
	for k, x := range c.env {
		n.env[k] = x
	}
	n.env[name] = v
	n.bound = make(map[string]bool, len(c.bound)+1)
	for k := range c.bound {
		n.bound[k] = true
	}
	n.bound[name] = true
	return &n
}

func (c *EvalCtx) inOld() *EvalCtx {
	if c.old == nil {
		return c
	}
	n := *c
	n.st = c.old
	n.locals = nil
	return &n
}

// value forces an SV to a first-class SMT value.
func (c *EvalCtx) value(v SV) T {
	if v.addr != nil {
		return c.st.load(v.addr)
	}
	if v.isNil {
		return mkInt(0)
	}
	if v.t.S == "" {
		sfail("expression has no value")
	}
	return v.t
}

func (c *EvalCtx) boolOf(e Expr) T {
	v := c.eval(e)
	t := c.value(v)
	if t.Sort != SBool {
		sfail("expected a boolean, got %s: %s", t.Sort, t.S)
	}
	return t
}

func goInt(t T) SV { return SV{t: t, typ: types.Typ[types.Int]} }

func (c *EvalCtx) eval(e Expr) SV {
	switch v := e.(type) {
	case *EInt:
		return SV{t: mkBig(v.V), typ: types.Typ[types.UntypedInt]}
	case *EStr:
		return SV{t: smtString(v.V), typ: types.Typ[types.String]}
	case *EBool:
		return SV{t: mkBool(v.V), typ: types.Typ[types.Bool]}
	case *ENil:
		return SV{isNil: true, t: mkInt(0)}
	case *EType:
		ty := c.x.resolveType(v.T, c.pkg, c.sf)
		return SV{isType: true, ty: ty, t: mkInt(int64(typeTag(ty)))}
	case *EIdent:
		return c.ident(v.Name)
	case *EUnary:
		return c.unary(v)
	case *EBinary:
		return c.binary(v)
	case *ECond:
		cnd := c.boolOf(v.C)
		a := c.eval(v.A)
		b := c.eval(v.B)
		at, bt := c.value(a), c.value(b)
		if a.isNil {
			at = c.nilAs(b)
		}
		if b.isNil {
			bt = c.nilAs(a)
		}
		typ := a.typ
		if typ == nil || a.isNil {
			typ = b.typ
		}
		return SV{t: ite(cnd, at, bt), typ: typ}
	case *ECall:
		return c.call(v)
	case *ESel:
		return c.selector(v)
	case *EIndex:
		return c.index(v)
	case *ESlice:
		return c.sliceExpr(v)
	case *EAssert:
		x := c.eval(v.X)
		ty := c.x.resolveType(v.T, c.pkg, c.sf)
		xt := c.value(x)
		if xt.Sort != SIface {
			sfail("type assertion on non-interface")
		}
		return SV{t: unboxIface(xt, ty), typ: ty}
	case *ESet:
		var s []SV
		for _, el := range v.Elems {
			s = append(s, c.eval(el))
		}
		return SV{set: s}
	}
	sfail("unsupported expression %T", e)
	return SV{}
}

func (c *EvalCtx) nilAs(other SV) T {
	if other.typ != nil {
		return zeroOf(other.typ)
	}
	switch other.t.Sort {
	case SSlice:
		return nilSlice()
	case SIface:
		return nilIface()
	}
	return mkInt(0)
}

func (c *EvalCtx) ident(name string) SV {
	if c.locals != nil && c.st != nil && c.st.cells != nil {
		if _, bound := c.bound[name]; !bound {
			if v, ok := c.x.localSV(c.st, c.locals, name); ok {
				return v
			}
		}
	}
	if v, ok := c.env[name]; ok {
		return v
	}
	if le, ok := c.lets[name]; ok {
		if c.depth > 50 {
			sfail("let recursion")
		}
		n := *c
		n.depth++
		return n.eval(le)
	}
	if c.st != nil {
		if g, ok := c.st.ghost[name]; ok {
			return SV{t: g}
		}
	}
	// package-level object
	if c.pkg != nil {
		if obj := c.pkg.Scope().Lookup(name); obj != nil {
			return c.object(obj)
		}
	}
	if obj := types.Universe.Lookup(name); obj != nil {
		if cst, ok := obj.(*types.Const); ok {
			return constSV(cst.Val(), cst.Type())
		}
	}
	if c.pkg != nil {
		if f := c.x.funcByName(c.pkg.Path(), name); f != nil {
			c.x.funcVals[f.String()] = f
			return SV{t: mkInt(int64(funcID(f))), typ: f.Signature, fnName: f.String()}
		}
	}
	sfail("unknown identifier %q", name)
	return SV{}
}

func constSV(val constant.Value, typ types.Type) SV {
	switch val.Kind() {
	case constant.Bool:
		return SV{t: mkBool(constant.BoolVal(val)), typ: typ}
	case constant.String:
		return SV{t: smtString(constant.StringVal(val)), typ: typ}
	case constant.Int:
		b, _ := new(big.Int).SetString(val.ExactString(), 10)
		return SV{t: mkBig(b), typ: typ}
	case constant.Float:
		f, _ := constant.Float64Val(val)
		return SV{t: T{fmt.Sprintf("(xf-fin %s)", realLit(f)), SFloat}, typ: typ}
	}
	sfail("unsupported constant kind")
	return SV{}
}

func realLit(f float64) string {
	r := new(big.Rat)
	r.SetFloat64(f)
	if r.Sign() < 0 {
		r.Neg(r)
		return fmt.Sprintf("(- (/ %s.0 %s.0))", r.Num().String(), r.Denom().String())
	}
	return fmt.Sprintf("(/ %s.0 %s.0)", r.Num().String(), r.Denom().String())
}

func (c *EvalCtx) object(obj types.Object) SV {
	switch o := obj.(type) {
	case *types.Const:
		return constSV(o.Val(), o.Type())
	case *types.Var:
		g := c.x.globalFor(o)
		if g == nil {
			sfail("no SSA global for %s", o.Name())
		}
		a := &Addr{kind: aGlobal, glob: g, rootT: deref(g.Type()), typ: deref(g.Type())}
		if isStruct(a.typ) {
			return SV{addr: a, typ: a.typ}
		}
		return SV{t: c.st.load(a), typ: a.typ}
	case *types.Func:
		f := c.x.prog.FuncValue(o)
		if f == nil {
			sfail("no SSA function for %s", o.Name())
		}
		return SV{t: mkInt(int64(funcID(f))), typ: o.Type(), fnName: f.String()}
	case *types.TypeName:
		return SV{isType: true, ty: o.Type(), t: mkInt(int64(typeTag(o.Type())))}
	}
	sfail("unsupported object %s", obj)
	return SV{}
}

func (c *EvalCtx) unary(v *EUnary) SV {
	x := c.eval(v.X)
	switch v.Op {
	case "!":
		return SV{t: not(c.value(x)), typ: types.Typ[types.Bool]}
	case "-":
		return SV{t: app(SInt, "-", c.value(x)), typ: x.typ}
	case "*":
		if x.typ == nil {
			sfail("deref of untyped value")
		}
		p, ok := x.typ.Underlying().(*types.Pointer)
		if !ok {
			sfail("deref of non-pointer %s", x.typ)
		}
		return c.derefPtr(c.value(x), p.Elem())
	}
	sfail("unary %s", v.Op)
	return SV{}
}

func (c *EvalCtx) derefPtr(ref T, elem types.Type) SV {
	if isStruct(elem) {
		return SV{addr: &Addr{kind: aStruct, root: ref, rootT: elem, typ: elem}, typ: elem}
	}
	a := &Addr{kind: aCell, root: ref, rootT: elem, typ: elem}
	return SV{t: c.st.load(a), typ: elem}
}

func (c *EvalCtx) selector(v *ESel) SV {
	// package-qualified name?
	if id, ok := v.X.(*EIdent); ok {
		isLocal := false
		if c.locals != nil && c.st != nil && c.st.cells != nil {
			_, isLocal = c.x.localSV(c.st, c.locals, id.Name)
		}
		if _, bound := c.env[id.Name]; !bound && !isLocal {
			if _, isLet := c.lets[id.Name]; !isLet {
				if pkg := c.x.resolvePkg(id.Name, c.pkg, c.sf); pkg != nil {
					if c.pkg == nil || c.pkg.Scope().Lookup(id.Name) == nil {
						obj := pkg.Scope().Lookup(v.Name)
						if obj == nil {
							sfail("%s.%s not found", id.Name, v.Name)
						}
						n := *c
						return n.object(obj)
					}
				}
			}
		}
	}
	x := c.eval(v.X)
	return c.selectField(x, v.Name)
}

func (c *EvalCtx) selectField(x SV, name string) SV {
	if x.typ == nil {
		sfail("field %s of untyped value", name)
	}
	typ := x.typ
	// auto-deref
	if p, ok := typ.Underlying().(*types.Pointer); ok {
		if x.ptrTo != nil {
			x = SV{addr: x.ptrTo, typ: p.Elem()}
		} else {
			x = c.derefPtr(c.value(x), p.Elem())
		}
		typ = p.Elem()
	}
	if !isStruct(typ) {
		sfail("field %s of non-struct %s", name, typ)
	}
	obj, index, _ := types.LookupFieldOrMethod(typ, true, nil, name)
	if obj == nil {
		// unexported fields need the package
		if n, ok := typ.(*types.Named); ok {
			obj, index, _ = types.LookupFieldOrMethod(typ, true, n.Obj().Pkg(), name)
		} else if c.pkg != nil {
			// an unnamed struct type written in the contract's own package
			obj, index, _ = types.LookupFieldOrMethod(typ, true, c.pkg, name)
		}
	}
	fv, ok := obj.(*types.Var)
	if !ok || fv == nil {
		sfail("no field %s in %s", name, typ)
	}
	cur := x
	curT := typ
	for _, i := range index {
		st := curT.Underlying().(*types.Struct)
		f := st.Field(i)
		if p, ok := curT.Underlying().(*types.Pointer); ok { // embedded pointer
			cur = c.derefPtr(c.value(cur), p.Elem())
			curT = p.Elem()
			st = curT.Underlying().(*types.Struct)
			f = st.Field(i)
		}
		if cur.addr != nil {
			na := cur.addr.extend(pstep{field: i, cont: curT}, f.Type())
			if isStruct(f.Type()) {
				cur = SV{addr: na, typ: f.Type()}
			} else {
				cur = SV{t: c.st.load(na), typ: f.Type()}
			}
		} else {
			cur = SV{t: structField(curT, cur.t, i), typ: f.Type()}
		}
		curT = f.Type()
		if p, ok := curT.Underlying().(*types.Pointer); ok && isStruct(p.Elem()) {
			_ = p
		}
	}
	return cur
}

func (c *EvalCtx) index(v *EIndex) SV {
	x := c.eval(v.X)
	i := c.eval(v.I)
	if x.typ == nil {
		xt := c.value(x)
		if strings.HasPrefix(xt.Sort, "(Array ") {
			return SV{t: sel(xt, c.value(i))}
		}
		sfail("index of untyped non-array value")
	}
	switch u := x.typ.Underlying().(type) {
	case *types.Slice:
		s := c.value(x)
		a := &Addr{kind: aElem, root: sliceArr(s), idx: ixT(sliceOff(s), c.value(i)), rootT: u.Elem(), typ: u.Elem()}
		if isStruct(u.Elem()) {
			return SV{addr: a, typ: u.Elem()}
		}
		return SV{t: c.st.load(a), typ: u.Elem()}
	case *types.Basic:
		if u.Info()&types.IsString != 0 {
			return SV{t: strByte(c.value(x), c.value(i)), typ: types.Typ[types.Uint8]}
		}
	case *types.Map:
		m := c.value(x)
		k := c.value(i)
		has := and(not(eq(m, mkInt(0))), sel(sel(c.st.mapDom(x.typ), m), k))
		val := sel(sel(c.st.mapVal(x.typ), m), k)
		return SV{t: ite(has, val, zeroOf(u.Elem())), typ: u.Elem()}
	case *types.Array:
		if x.addr != nil {
			na := x.addr.extend(pstep{isIndex: true, index: c.value(i)}, u.Elem())
			return SV{t: c.st.load(na), typ: u.Elem()}
		}
		return SV{t: sel(c.value(x), c.value(i)), typ: u.Elem()}
	case *types.Pointer:
		if arr, ok := u.Elem().Underlying().(*types.Array); ok {
			a := &Addr{kind: aCell, root: c.value(x), rootT: u.Elem(), typ: u.Elem()}
			na := a.extend(pstep{isIndex: true, index: c.value(i)}, arr.Elem())
			return SV{t: c.st.load(na), typ: arr.Elem()}
		}
	}
	sfail("cannot index %s", x.typ)
	return SV{}
}

func strByte(s, i T) T {
	return app(SInt, "str.to_code", app(SString, "str.at", s, i))
}

func (c *EvalCtx) sliceExpr(v *ESlice) SV {
	x := c.eval(v.X)
	xt := c.value(x)
	var lo T = mkInt(0)
	if v.Lo != nil {
		lo = c.value(c.eval(v.Lo))
	}
	switch xt.Sort {
	case SString:
		var hi T = app(SInt, "str.len", xt)
		if v.Hi != nil {
			hi = c.value(c.eval(v.Hi))
		}
		return SV{t: app(SString, "str.substr", xt, lo, app(SInt, "-", hi, lo)), typ: x.typ}
	case SSlice:
		var hi T = sliceLen(xt)
		if v.Hi != nil {
			hi = c.value(c.eval(v.Hi))
		}
		return SV{t: mkSlice(sliceArr(xt), app(SInt, "+", sliceOff(xt), lo), app(SInt, "-", hi, lo), app(SInt, "-", sliceCap(xt), lo)), typ: x.typ}
	}
	sfail("cannot slice %s", xt.Sort)
	return SV{}
}

func (c *EvalCtx) binary(v *EBinary) SV {
	boolT := types.Typ[types.Bool]
	switch v.Op {
	case "&&":
		return SV{t: and(c.boolOf(v.X), c.boolOf(v.Y)), typ: boolT}
	case "||":
		return SV{t: or(c.boolOf(v.X), c.boolOf(v.Y)), typ: boolT}
	case "==>":
		return SV{t: implies(c.boolOf(v.X), c.boolOf(v.Y)), typ: boolT}
	case "<==>":
		return SV{t: eq(c.boolOf(v.X), c.boolOf(v.Y)), typ: boolT}
	case "in":
		x := c.eval(v.X)
		if call, ok := v.Y.(*ECall); ok && call.Fun == "dom" {
			m := c.eval(call.Args[0])
			mt := c.value(m)
			return SV{t: and(not(eq(mt, mkInt(0))), sel(sel(c.st.mapDom(m.typ), mt), c.value(x))), typ: boolT}
		}
		y := c.eval(v.Y)
		if y.set != nil {
			var ds []T
			for _, el := range y.set {
				ds = append(ds, c.equal(x, el))
			}
			return SV{t: or(ds...), typ: boolT}
		}
		yt := c.value(y)
		if strings.HasPrefix(yt.Sort, "(Array ") && arrayElemSort(yt.Sort) == SBool {
			return SV{t: sel(yt, c.value(x)), typ: boolT}
		}
		sfail("'in' needs a set literal, dom(m) or a set-valued term")
	case "==":
		return SV{t: c.equal(c.eval(v.X), c.eval(v.Y)), typ: boolT}
	case "!=":
		return SV{t: not(c.equal(c.eval(v.X), c.eval(v.Y))), typ: boolT}
	}
	x := c.eval(v.X)
	y := c.eval(v.Y)
	xt, yt := c.value(x), c.value(y)
	typ := x.typ
	if typ == nil || isUntyped(typ) {
		typ = y.typ
	}
	switch v.Op {
	case "<", "<=", ">", ">=":
		if xt.Sort == SFloat || yt.Sort == SFloat {
			return SV{t: xfCmp(v.Op, toXF(xt), toXF(yt)), typ: boolT}
		}
		if xt.Sort == SReal || yt.Sort == SReal {
			return SV{t: app(SBool, v.Op, toReal(xt), toReal(yt)), typ: boolT}
		}
		return SV{t: app(SBool, v.Op, xt, yt), typ: boolT}
	case "+":
		if xt.Sort == SString {
			return SV{t: app(SString, "str.++", xt, yt), typ: typ}
		}
		if xt.Sort == SReal || yt.Sort == SReal {
			return SV{t: app(SReal, "+", toReal(xt), toReal(yt))}
		}
		return SV{t: app(SInt, "+", xt, yt), typ: typ}
	case "-":
		if xt.Sort == SReal || yt.Sort == SReal {
			return SV{t: app(SReal, "-", toReal(xt), toReal(yt))}
		}
		return SV{t: app(SInt, "-", xt, yt), typ: typ}
	case "*":
		if xt.Sort == SReal || yt.Sort == SReal {
			return SV{t: app(SReal, "*", toReal(xt), toReal(yt))}
		}
		return SV{t: app(SInt, "*", xt, yt), typ: typ}
	case "/":
		if xt.Sort == SReal || yt.Sort == SReal {
			return SV{t: app(SReal, "/", toReal(xt), toReal(yt))}
		}
		return SV{t: app(SInt, "div", xt, yt), typ: typ} // specs use Euclidean div on non-negative operands
	case "%":
		return SV{t: app(SInt, "mod", xt, yt), typ: typ}
	case "<<":
		if n, ok := smallConst(yt); ok {
			return SV{t: app(SInt, "*", xt, mkBig(new(big.Int).Lsh(big.NewInt(1), uint(n)))), typ: typ}
		}
	case ">>":
		if n, ok := smallConst(yt); ok {
			return SV{t: app(SInt, "div", xt, mkBig(new(big.Int).Lsh(big.NewInt(1), uint(n)))), typ: typ}
		}
	case "&":
		if n, ok := smallConstBig(yt); ok {
			m := new(big.Int).Add(n, big.NewInt(1))
			if m.BitLen() > 0 && new(big.Int).And(m, n).Sign() == 0 { // mask 2^k-1
				return SV{t: app(SInt, "mod", xt, mkBig(m)), typ: typ}
			}
		}
	}
	sfail("unsupported binary operator %s on %s,%s", v.Op, xt.Sort, yt.Sort)
	return SV{}
}

func isUntyped(t types.Type) bool {
	b, ok := t.(*types.Basic)
	return ok && b.Info()&types.IsUntyped != 0
}

func smallConst(t T) (int, bool) {
	b, ok := smallConstBig(t)
	if !ok || !b.IsInt64() || b.Int64() > 200 || b.Int64() < 0 {
		return 0, false
	}
	return int(b.Int64()), true
}

func smallConstBig(t T) (*big.Int, bool) {
	b, ok := new(big.Int).SetString(t.S, 10)
	return b, ok
}

func toReal(t T) T {
	if t.Sort == SReal {
		return t
	}
	if t.Sort == SFloat {
		return app(SReal, "xf-val", t)
	}
	return app(SReal, "to_real", t)
}

func toXF(t T) T {
	if t.Sort == SFloat {
		return t
	}
	return app(SFloat, "xf-fin", toReal(t))
}

func (c *EvalCtx) equal(x, y SV) T {
	if x.isNil && y.isNil {
		return mkBool(true)
	}
	if x.isNil {
		x, y = y, x
	}
	if x.isType || y.isType {
		return eq(x.t, y.t)
	}
	xt := c.value(x)
	if y.isNil {
		switch xt.Sort {
		case SSlice:
			return eq(sliceArr(xt), mkInt(0))
		case SIface:
			return eq(ifaceTag(xt), mkInt(0))
		case SInt:
			return eq(xt, mkInt(0))
		}
		sfail("nil comparison with %s", xt.Sort)
	}
	yt := c.value(y)
	if xt.Sort != yt.Sort {
		if xt.Sort == SFloat || yt.Sort == SFloat {
			return xfCmp("==", toXF(xt), toXF(yt))
		}
		if xt.Sort == SReal || yt.Sort == SReal {
			return eq(toReal(xt), toReal(yt))
		}
		sfail("comparing %s with %s (%s == %s)", xt.Sort, yt.Sort, xt.S, yt.S)
	}
	if xt.Sort == SFloat {
		return xfCmp("==", xt, yt)
	}
	return eq(xt, yt)
}

// ---------------------------------------------------------------------------
// Builtin and ghost calls.

func (c *EvalCtx) call(v *ECall) SV {
	boolT := types.Typ[types.Bool]
	intT := types.Typ[types.Int]
	arg := func(i int) SV {
		if i >= len(v.Args) {
			sfail("%s: missing argument %d", v.Fun, i)
		}
		return c.eval(v.Args[i])
	}
	argT := func(i int) T { return c.value(arg(i)) }
	switch v.Fun {
	case "old":
		o := c.inOld()
		return o.eval(v.Args[0])
	case "entry":
		if c.entry == nil {
			return c.eval(v.Args[0])
		}
		n := *c
		n.st = c.entry
		return n.eval(v.Args[0])
	case "len":
		x := arg(0)
		if x.typ != nil {
			if a, ok := x.typ.Underlying().(*types.Array); ok {
				return goInt(mkInt(a.Len()))
			}
			if _, ok := x.typ.Underlying().(*types.Map); ok {
				return goInt(app(SInt, declFun("maplen "+sortOf(x.typ.Underlying().(*types.Map).Key()), []string{arraySort(sortOf(x.typ.Underlying().(*types.Map).Key()), SBool)}, SInt), sel(c.st.mapDom(x.typ), c.value(x))))
			}
		}
		xt := c.value(x)
		switch xt.Sort {
		case SString:
			return goInt(app(SInt, "str.len", xt))
		case SSlice:
			return goInt(sliceLen(xt))
		}
		sfail("len of %s", xt.Sort)
	case "cap":
		return goInt(sliceCap(argT(0)))
	case "forall", "exists":
		if len(v.Args) < 2 {
			sfail("%s(var, guard, body[, trigger terms...])", v.Fun)
		}
		id, ok := v.Args[0].(*EIdent)
		sort := SInt
		name := ""
		if ok {
			name = id.Name
		} else if b, ok2 := v.Args[0].(*EBinary); ok2 && b.Op == "in" { // forall(x in T, ...) not supported
			sfail("bad quantifier variable")
		} else {
			sfail("quantifier variable must be an identifier")
		}
		var typ types.Type = intT
		if i := strings.IndexByte(name, '#'); i > 0 { // x#string
			sort, typ = c.x.ghostSort(name[i+1:], c.pkg, c.sf)
			name = name[:i]
		}
		bv := T{quoteSym("q " + name + fmt.Sprintf("%d", c.depth)), sort}
		n := c.with(name, SV{t: bv, typ: typ})
		n.depth = c.depth + 1
		var body T
		if len(v.Args) >= 3 {
			g := n.boolOf(v.Args[1])
			b := n.boolOf(v.Args[2])
			if v.Fun == "forall" {
				body = implies(g, b)
			} else {
				body = and(g, b)
			}
		} else {
			body = n.boolOf(v.Args[1])
		}
		if len(v.Args) > 3 && v.Fun == "forall" {
			// explicit trigger terms: each one is an alternative pattern
			var pats []string
			for _, te := range v.Args[3:] {
				tv := n.eval(te)
				pats = append(pats, ":pattern ("+n.value(tv).S+")")
			}
			return SV{t: T{fmt.Sprintf("(forall ((%s %s)) (! %s %s))", bv.S, sort, body.S, strings.Join(pats, " ")), SBool}, typ: boolT}
		}
		if pats := autoPatterns(body.S, bv.S); useAutoPatterns && pats != "" && v.Fun == "forall" {
			return SV{t: T{fmt.Sprintf("(forall ((%s %s)) (! %s %s))", bv.S, sort, body.S, pats), SBool}, typ: boolT}
		}
		return SV{t: T{fmt.Sprintf("(%s ((%s %s)) %s)", v.Fun, bv.S, sort, body.S), SBool}, typ: boolT}
	case "typeof":
		return SV{t: ifaceTag(argT(0))}
	case "typeis":
		x := argT(0)
		ty := arg(1)
		return SV{t: eq(ifaceTag(x), ty.t), typ: boolT}
	case "zero":
		ty := arg(0)
		return SV{t: zeroOf(ty.ty), typ: ty.ty}
	case "contains":
		return SV{t: app(SBool, "str.contains", argT(0), argT(1)), typ: boolT}
	case "hasPrefix":
		return SV{t: app(SBool, "str.prefixof", argT(1), argT(0)), typ: boolT}
	case "hasSuffix":
		return SV{t: app(SBool, "str.suffixof", argT(1), argT(0)), typ: boolT}
	case "indexOf":
		return goInt(app(SInt, "str.indexof", argT(0), argT(1), mkInt(0)))
	case "substr":
		lo := argT(1)
		return SV{t: app(SString, "str.substr", argT(0), lo, app(SInt, "-", argT(2), lo)), typ: types.Typ[types.String]}
	case "concat":
		var ts []T
		for i := range v.Args {
			ts = append(ts, argT(i))
		}
		return SV{t: app(SString, "str.++", ts...), typ: types.Typ[types.String]}
	case "ite":
		return c.eval(&ECond{v.Args[0], v.Args[1], v.Args[2]})
	case "unchanged":
		cur := c.eval(v.Args[0])
		old := c.inOld().eval(v.Args[0])
		return SV{t: eq(c.value(cur), c.inOld().value(old)), typ: boolT}
	case "fresh":
		p := argT(0)
		if c.old == nil {
			sfail("fresh needs a pre-state")
		}
		return SV{t: and(app(SBool, "<=", c.old.next, p), app(SBool, "<", p, c.st.next)), typ: boolT}
	case "allocated":
		p := argT(0)
		return SV{t: app(SBool, "<", p, c.st.next), typ: boolT}
	case "str":
		// string view of a byte slice
		s := arg(0)
		st := c.value(s)
		el := s.typ.Underlying().(*types.Slice).Elem()
		return SV{t: strOfBytes(sel(c.st.arrHeap(el), sliceArr(st)), sliceOff(st), sliceLen(st)), typ: types.Typ[types.String]}
	case "strof":
		// strof(a, off, n): the string made of n bytes of the content array a starting at off
		return SV{t: strOfBytes(argT(0), argT(1), argT(2)), typ: types.Typ[types.String]}
	case "abs":
		x := argT(0)
		return goInt(ite(app(SBool, ">=", x, mkInt(0)), x, app(SInt, "-", x)))
	case "min":
		a, b := argT(0), argT(1)
		return SV{t: ite(app(SBool, "<=", a, b), a, b), typ: arg(0).typ}
	case "max":
		a, b := argT(0), argT(1)
		return SV{t: ite(app(SBool, ">=", a, b), a, b), typ: arg(0).typ}
	case "real":
		return SV{t: toReal(argT(0))}
	case "isnan":
		return SV{t: T{"((_ is xf-nan) " + argT(0).S + ")", SBool}, typ: boolT}
	case "isfin":
		return SV{t: T{"((_ is xf-fin) " + argT(0).S + ")", SBool}, typ: boolT}
	case "fval":
		return SV{t: app(SReal, "xf-val", argT(0))}
	case "pl":
		return SV{t: ifacePl(argT(0))}
	case "mapdom", "mapval", "nokeys":
		// whole-map views: key set / value function of a map as arrays (quantifier-free map reasoning)
		m := arg(0)
		if m.typ == nil {
			sfail("%s: untyped argument", v.Fun)
		}
		mt, ok := m.typ.Underlying().(*types.Map)
		if !ok {
			sfail("%s: not a map", v.Fun)
		}
		switch v.Fun {
		case "mapdom":
			return SV{t: sel(c.st.mapDom(m.typ), c.value(m))}
		case "mapval":
			return SV{t: sel(c.st.mapVal(m.typ), c.value(m))}
		default:
			ds := arraySort(sortOf(mt.Key()), SBool)
			return SV{t: T{fmt.Sprintf("((as const %s) false)", ds), ds}}
		}
	case "with":
		a := argT(0)
		return SV{t: store(a, argT(1), argT(2))}
	case "without":
		a := argT(0)
		return SV{t: store(a, argT(1), mkBool(false))}
	case "iface", "asKey":
		// iface(x): x boxed into an interface value with its static type as dynamic type
		a := arg(0)
		if a.typ == nil {
			sfail("iface: untyped argument")
		}
		t, _ := boxIface(c.value(a), a.typ)
		return SV{t: t, typ: types.NewInterfaceType(nil, nil)}
	case "addrof":
		// addrof(x.f): the address of a field as a value (e.g. of a mutex)
		a := arg(0)
		if a.addr == nil {
			sfail("addrof needs a location")
		}
		return SV{t: c.x.materialize(c.st, Val{addr: a.addr})}
	case "visited":
		// visited(k): k was already produced by the (single) map range loop of this function
		var names []string
		pre := "visited."
		if c.locals != nil {
			pre += c.locals.fn.String() + "." // the map range of the function whose loop invariant this is
		} else if c.fn != nil {
			pre += c.fn.String() + "."
		}
		for g := range c.st.ghost {
			if strings.HasPrefix(g, pre) {
				names = append(names, g)
			}
		}
		if len(names) != 1 {
			sfail("visited(k): need exactly one active map range, found %d", len(names))
		}
		return SV{t: sel(c.st.ghost[names[0]], argT(0)), typ: boolT}
	case "apply":
		// apply(f, args...): the result of the pure callback f (see flag purecallbacks)
		f := arg(0)
		sig, ok := f.typ.Underlying().(*types.Signature)
		if !ok {
			sfail("apply: first argument is not a function")
		}
		var vals []Val
		for i := 1; i < len(v.Args); i++ {
			a := arg(i)
			pt := sig.Params().At(i - 1).Type()
			vals = append(vals, Val{T: c.value(a), typ: pt})
		}
		r := c.x.pureCallback(c.st, c.value(f), sig, vals)
		if r.tuple != nil {
			sfail("apply: multi-result callbacks are not supported")
		}
		return SV{t: r.T, typ: r.typ}
	case "outer":
		// outer(e): e evaluated in the frame that (transitively inlined) called this one: its locals and
		// parameters by name. Only meaningful in contracts of functions that are declared inline.
		if c.locals == nil || c.locals.parent == nil {
			sfail("outer(...): there is no enclosing frame (the function is not being executed inline)")
		}
		p := c.locals.parent
		n := *c
		n.locals = p
		n.env = make(map[string]SV, len(p.env)+len(c.bound))
		for k, v := range p.env {
			n.env[k] = v
		}
		for k := range c.bound { // quantified variables stay visible
			if v, ok := c.env[k]; ok {
				n.env[k] = v
			}
		}
		n.lets = nil
		n.bound = c.bound
		if p.pre != nil {
			n.old = p.pre // old(...) inside outer(...) is the caller's pre-state
		}
		if pc := c.x.frameContract(p); pc != nil {
			pctx := c.x.ctxFor(pc, c.st, c.old, p.env, p.fn)
			n.pkg, n.sf, n.lets, n.fn = pctx.pkg, pctx.sf, pctx.lets, pctx.fn
		}
		return n.eval(v.Args[0])
	case "at":
		// at(a, off, i): element i of the slice view (a, off) of a backing array; the index is built like
		// the index of a real slice element (see ixT), so facts stated with at() and loads in the code meet
		a := arg(0)
		return SV{t: sel(c.value(a), ixT(argT(1), argT(2)))}
	case "allocmax":
		return goInt(c.x.ghostInt(c.st, "alloc.max"))
	case "arr":
		return SV{t: sliceArr(argT(0))}
	case "off":
		return SV{t: sliceOff(argT(0))}
	case "elems":
		// content array of a slice's backing store
		s := arg(0)
		st := c.value(s)
		el := s.typ.Underlying().(*types.Slice).Elem()
		return SV{t: sel(c.st.arrHeap(el), sliceArr(st))}
	case "calls", "arg", "argc", "ret", "retc", "panicked":
		return c.x.logExpr(c, v)
	case "held":
		return c.x.lockExpr(c, v)
	case "implies":
		return SV{t: implies(c.boolOf(v.Args[0]), c.boolOf(v.Args[1])), typ: boolT}
	}
	if gf, ok := c.x.ghostFields[v.Fun]; ok {
		sort, typ := c.x.ghostSort(gf.Type, c.x.typesPkg(gf.Pkg), c.sf)
		h := c.st.heap("Gf "+gf.Name, arraySort(SInt, sort))
		return SV{t: sel(h, argT(0)), typ: typ}
	}
	// ghost function
	if g := c.x.lookupGhost(v.Fun, c.pkg, c.sf); g != nil {
		return c.applyGhost(g, v)
	}
	sfail("unknown function %q in contract", v.Fun)
	return SV{}
}

func strOfBytes(arr, off, ln T) T {
	f := declFun("strOf", []string{arraySort(SInt, SInt), SInt, SInt}, SString)
	return app(SString, f, arr, off, ln)
}

func bytesOfStr(s T) T {
	f := declFun("bytesOf", []string{SString}, arraySort(SInt, SInt))
	return app(arraySort(SInt, SInt), f, s)
}

func (c *EvalCtx) applyGhost(g *GhostFunc, v *ECall) SV {
	if len(v.Args) != len(g.Params) {
		sfail("ghost %s: want %d arguments", g.Name, len(g.Params))
	}
	gpkg := c.x.typesPkg(g.Pkg)
	if gpkg == nil {
		gpkg = c.pkg
	}
	gsf := g.SF
	if gsf == nil {
		gsf = c.sf
	}
	args := make([]SV, len(v.Args))
	for i := range v.Args {
		args[i] = c.eval(v.Args[i])
	}
	if g.Body != nil && g.Pure {
		return c.applyPureGhost(g, gpkg, args)
	}
	if g.Body != nil {
		n := *c
		n.env = map[string]SV{}
		n.lets = nil
		n.locals = nil // the body of a ghost function sees its parameters only, never the locals of the verified function
		n.bound = nil
		n.pkg = gpkg
		n.sf = gsf
		n.depth = c.depth + 1
		if n.depth > 60 {
			sfail("ghost function recursion too deep: %s", g.Name)
		}
		for i, p := range g.Params {
			a := args[i]
			_, typ := c.x.ghostSort(p.Type, gpkg, gsf)
			if a.isNil && typ != nil {
				a = SV{t: zeroOf(typ), typ: typ}
			}
			if a.typ == nil || isUntyped(a.typ) {
				a.typ = typ
			}
			n.env[p.Name] = a
		}
		r := n.eval(g.Body)
		_, rtyp := c.x.ghostSort(g.Result, gpkg, gsf)
		if r.typ == nil {
			r.typ = rtyp
		}
		return r
	}
	var sorts []string
	var ts []T
	for i, p := range g.Params {
		s, typ := c.x.ghostSort(p.Type, gpkg, gsf)
		sorts = append(sorts, s)
		a := args[i]
		var t T
		if a.isNil && typ != nil {
			t = zeroOf(typ)
		} else {
			t = c.value(a)
		}
		if t.Sort != s {
			sfail("ghost %s: argument %d has sort %s, want %s", g.Name, i, t.Sort, s)
		}
		ts = append(ts, t)
	}
	rs, rtyp := c.x.ghostSort(g.Result, gpkg, gsf)
	f := declFun("ghost "+g.Name, sorts, rs)
	if len(ts) == 0 {
		return SV{t: T{f, rs}, typ: rtyp}
	}
	return SV{t: app(rs, f, ts...), typ: rtyp}
}

// unboxIface extracts the payload of interface value x as Go type ty.
func unboxIface(x T, ty types.Type) T {
	s := sortOf(ty)
	switch {
	case isPointerLike(ty):
		return ifacePl(x)
	case s == SInt:
		return ifacePl(x)
	case s == SBool:
		return not(eq(ifacePl(x), mkInt(0)))
	default:
		f := declFun("unbox "+s, []string{SInt}, s)
		return app(s, f, ifacePl(x))
	}
}

// boxIface builds an interface value holding v of concrete type ty; the
// returned facts must be assumed (unbox∘box = id instances).
func boxIface(v T, ty types.Type) (T, []T) {
	tag := mkInt(int64(typeTag(ty)))
	s := sortOf(ty)
	switch {
	case isPointerLike(ty), s == SInt:
		return mkIface(tag, v), nil
	case s == SBool:
		return mkIface(tag, ite(v, mkInt(1), mkInt(0))), nil
	default:
		bf := declFun("box "+s, []string{s}, SInt)
		uf := declFun("unbox "+s, []string{SInt}, s)
		b := app(SInt, bf, v)
		return mkIface(tag, b), []T{eq(app(s, uf, b), v)}
	}
}

// xfCmp compares two extended reals with IEEE NaN/Inf semantics.
func xfCmp(op string, a, b T) T {
	isFin := func(x T) T { return T{"((_ is xf-fin) " + x.S + ")", SBool} }
	isP := func(x T) T { return T{"((_ is xf-pinf) " + x.S + ")", SBool} }
	isN := func(x T) T { return T{"((_ is xf-ninf) " + x.S + ")", SBool} }
	isNaN := func(x T) T { return T{"((_ is xf-nan) " + x.S + ")", SBool} }
	av, bv := app(SReal, "xf-val", a), app(SReal, "xf-val", b)
	nonan := and(not(isNaN(a)), not(isNaN(b)))
	lt := and(nonan, or(
		and(isFin(a), isFin(b), app(SBool, "<", av, bv)),
		and(isN(a), not(isN(b))),
		and(not(isP(a)), isP(b))))
	eqv := and(nonan, or(and(isFin(a), isFin(b), eq(av, bv)), and(isP(a), isP(b)), and(isN(a), isN(b))))
	switch op {
	case "<":
		return lt
	case "<=":
		return or(lt, eqv)
	case ">":
		return xfCmp("<", b, a)
	case ">=":
		return xfCmp("<=", b, a)
	case "==":
		return eqv
	case "!=":
		return not(eqv)
	}
	panic("xfCmp " + op)
}

// applyPureGhost: a heap-independent ghost function with a body becomes an SMT
// function with a defining axiom triggered on its applications.
func (c *EvalCtx) applyPureGhost(g *GhostFunc, gpkg *types.Package, args []SV) SV {
	var sorts []string
	var typs []types.Type
	for _, p := range g.Params {
		s, typ := c.x.ghostSort(p.Type, gpkg, g.SF)
		sorts = append(sorts, s)
		typs = append(typs, typ)
	}
	rs, rtyp := c.x.ghostSort(g.Result, gpkg, g.SF)
	f := declFun("ghost "+g.Name, sorts, rs)
	key := "def " + g.Pkg + "::" + g.Name
	if !axiomSeen[key] && !c.x.definingGhost[key] {
		c.x.definingGhost[key] = true
		n := &EvalCtx{x: c.x, st: newState(), env: map[string]SV{}, pkg: gpkg, sf: g.SF}
		var binders []string
		var bvs []T
		for i, p := range g.Params {
			bv := T{quoteSym("d " + p.Name), sorts[i]}
			binders = append(binders, "("+bv.S+" "+sorts[i]+")")
			bvs = append(bvs, bv)
			n.env[p.Name] = SV{t: bv, typ: typs[i]}
		}
		body := n.value(n.eval(g.Body))
		lhs := app(rs, f, bvs...)
		if len(bvs) == 0 {
			lhs = T{f, rs}
			addAxiom(key, []string{f}, eq(lhs, body).S)
		} else {
			addAxiom(key, []string{f}, fmt.Sprintf("(forall (%s) (! (= %s %s) :pattern (%s)))", strings.Join(binders, " "), lhs.S, body.S, lhs.S))
		}
		delete(c.x.definingGhost, key)
	}
	var ts []T
	for i, a := range args {
		var t T
		if a.isNil && typs[i] != nil {
			t = zeroOf(typs[i])
		} else {
			t = c.value(a)
		}
		if t.Sort != sorts[i] {
			sfail("ghost %s: argument %d has sort %s, want %s", g.Name, i, t.Sort, sorts[i])
		}
		ts = append(ts, t)
	}
	if len(ts) == 0 {
		return SV{t: T{f, rs}, typ: rtyp}
	}
	return SV{t: app(rs, f, ts...), typ: rtyp}
}

// autoPatterns proposes E-matching triggers for a quantified body: every
// array read or uninterpreted application that mentions the bound variable and
// has no proper subterm that already qualifies.
var useAutoPatterns = false

func autoPatterns(body string, bv string) string {
	ps := parseSexps(body)
	if len(ps) != 1 {
		return ""
	}
	seen := map[string]bool{}
	var pats []string
	var walk func(n *sexp) bool // reports whether n mentions bv
	walk = func(n *sexp) bool {
		if !n.isL {
			return n.atom == bv
		}
		if len(n.list) == 0 {
			return false
		}
		head := n.list[0]
		if !head.isL && (head.atom == "forall" || head.atom == "exists" || head.atom == "!") {
			// do not look inside nested quantifiers for triggers of the outer one
			return strings.Contains(n.String(), bv)
		}
		mentions := false
		childQualifies := false
		for _, c := range n.list[1:] {
			if walk(c) {
				mentions = true
				if c.isL && isTriggerHead(c) {
					childQualifies = true
				}
			}
		}
		if mentions && isTriggerHead(n) {
			// prefer the innermost qualifying terms: skip when a child that mentions bv already qualifies
			inner := false
			for _, c := range n.list[1:] {
				if c.isL && strings.Contains(c.String(), bv) && hasTrigger(c, bv) {
					inner = true
				}
			}
			if !inner {
				t := n.String()
				if !seen[t] {
					seen[t] = true
					pats = append(pats, t)
				}
			}
		}
		_ = childQualifies
		return mentions
	}
	walk(ps[0])
	if len(pats) == 0 || len(pats) > 6 {
		return ""
	}
	var b strings.Builder
	for _, p := range pats {
		b.WriteString(":pattern (" + p + ") ")
	}
	return strings.TrimSpace(b.String())
}

func isTriggerHead(n *sexp) bool {
	if !n.isL || len(n.list) == 0 || n.list[0].isL {
		return false
	}
	h := n.list[0].atom
	if h == "select" {
		return true
	}
	if _, ok := symbols[h]; ok {
		return true
	}
	return false
}

func hasTrigger(n *sexp, bv string) bool {
	if !n.isL {
		return false
	}
	if isTriggerHead(n) && strings.Contains(n.String(), bv) {
		return true
	}
	for _, c := range n.list {
		if hasTrigger(c, bv) {
			return true
		}
	}
	return false
}
