package main

import (
	"fmt"
	"go/token"
	"go/types"
	"sort"
	"strconv"
	"strings"

	"golang.org/x/tools/go/ssa"
)

type loopInfo struct {
	headers []*ssa.BasicBlock
	ord     map[*ssa.BasicBlock]int
	body    map[*ssa.BasicBlock]map[*ssa.BasicBlock]bool
}

func (x *Exec) loops(fn *ssa.Function) *loopInfo {
	if li, ok := x.loopsOf[fn]; ok {
		return li
	}
	li := &loopInfo{ord: map[*ssa.BasicBlock]int{}, body: map[*ssa.BasicBlock]map[*ssa.BasicBlock]bool{}}
	for _, b := range fn.Blocks {
		for _, h := range b.Succs {
			if h.Dominates(b) {
				if li.body[h] == nil {
					li.body[h] = map[*ssa.BasicBlock]bool{h: true}
					li.headers = append(li.headers, h)
				}
				// natural loop of back edge b->h
				var stack []*ssa.BasicBlock
				if !li.body[h][b] {
					li.body[h][b] = true
					stack = append(stack, b)
				}
				for len(stack) > 0 {
					n := stack[len(stack)-1]
					stack = stack[:len(stack)-1]
					for _, p := range n.Preds {
						if !li.body[h][p] {
							li.body[h][p] = true
							stack = append(stack, p)
						}
					}
				}
			}
		}
	}
	sort.Slice(li.headers, func(i, j int) bool { return li.headers[i].Index < li.headers[j].Index })
	for i, h := range li.headers {
		li.ord[h] = i + 1
	}
	x.loopsOf[fn] = li
	return li
}

// modRecorder collects what a dry run of a loop body modifies.
type modRecorder struct {
	cells   map[*ssa.Alloc]bool
	heaps   map[string]string // name -> sort
	refs    map[string][]T    // heap -> refs stored to (nil entry = whole)
	whole   map[string]bool
	ghosts  map[string]string
	globals map[*ssa.Global]bool
	all     bool
}

func newRecorder() *modRecorder {
	return &modRecorder{cells: map[*ssa.Alloc]bool{}, heaps: map[string]string{}, refs: map[string][]T{}, whole: map[string]bool{}, ghosts: map[string]string{}, globals: map[*ssa.Global]bool{}}
}

// diffStates records the differences between a state at the loop head and a
// state at the end of a body path.
func (r *modRecorder) diff(before, after *State) {
	for a, v := range after.cells {
		if b, ok := before.cells[a]; !ok || b.S != v.S {
			r.cells[a] = true
		}
	}
	for n, h := range after.heaps {
		b, ok := before.heaps[n]
		if ok && b.S == h.S {
			continue
		}
		if !ok && h.S == quoteSym(n) {
			continue
		}
		r.heaps[n] = h.Sort
		if after.modHeaps[n] && !before.modHeaps[n] {
			r.whole[n] = true
		}
	}
	for n, g := range after.ghost {
		if b, ok := before.ghost[n]; !ok || b.S != g.S {
			r.ghosts[n] = g.Sort
		}
	}
	for g, v := range after.globals {
		if b, ok := before.globals[g]; !ok || b.S != v.S {
			r.globals[g] = true
		}
	}
}

func (x *Exec) frameContract(fr *Frame) *Contract {
	if fr.contract != nil {
		return fr.contract
	}
	return x.contractFor(fr.fn)
}

// enterBlock handles loop headers; it returns false when the path ends here.
func (x *Exec) enterBlock(st *State, fr *Frame, b *ssa.BasicBlock) bool {
	li := x.loops(fr.fn)
	ord, isHeader := li.ord[b]
	if !isHeader {
		return true
	}
	c := x.frameContract(fr)
	var spec *LoopSpec
	if c != nil {
		spec = c.Loops[ord]
	}
	if st.cut[b] && st.prevBlock != nil && st.prevBlock.Parent() == b.Parent() && !li.body[b][st.prevBlock] {
		// the loop is entered again from outside on the same path (e.g. an inlined callee
		// called twice): this is a new loop entry, not a back edge
		delete(st.cut, b)
	}
	if st.cut[b] {
		// back edge: the invariant must be re-established
		if x.dry > 0 {
			if x.dryRec != nil && x.dryHeader == b {
				x.dryRec.diff(x.dryBase, st)
				x.recordStoreRefs(st)
			}
			return false
		}
		x.paths++
		if spec != nil {
			ctx := x.invCtx(st, fr, c)
			ctx.entry = st.loopEntry[b]
			var prev []T
			for j, inv := range spec.Invariants {
				g, ok := x.evalInv(ctx, inv, c)
				if !ok {
					continue
				}
				x.nextFocus = fmt.Sprintf("%s#L%d/inv#%d", fr.fn.String(), ord, j+1)
				var ground, simple []T
				for _, p := range prev {
					if !strings.Contains(p.S, "(forall ") && !strings.Contains(p.S, "(exists ") {
						ground = append(ground, p)
						simple = append(simple, p)
					} else if simpleQuant(p.S) {
						simple = append(simple, p)
					}
				}
				x.nextAltGoal = implies(and(ground...), g)
				x.nextAltGoal2 = implies(and(simple...), g)
				x.addCheck(st, fr, fmt.Sprintf("%s/inv#%d/preserve", loopName(fr, ord), j+1), implies(and(prev...), g), b.Instrs[0].Pos(), inv.Text)
				x.nextFocus = ""
				x.nextAltGoal = T{}
				x.nextAltGoal2 = T{}
				prev = append(prev, g)
			}
		}
		if hs := x.loopFrameHeaps[b]; len(hs) > 0 {
			g := x.frameGoal(st, topFrame(fr), hs, declConst("frame.r", SInt))
			x.addCheck(st, fr, fmt.Sprintf("%s/frame/preserve", loopName(fr, ord)), g, b.Instrs[0].Pos(), "the loop keeps the function's frame")
		}
		return false
	}
	if spec != nil && x.dry == 0 {
		ctx := x.invCtx(st, fr, c)
		var prev []T
		for j, inv := range spec.Invariants {
			g, ok := x.evalInv(ctx, inv, c)
			if !ok {
				continue
			}
			x.addCheck(st, fr, fmt.Sprintf("%s/inv#%d/init", loopName(fr, ord), j+1), implies(and(prev...), g), b.Instrs[0].Pos(), inv.Text)
			prev = append(prev, g)
		}
	}
	// discover what the loop modifies (two dry runs)
	st.cut[b] = true
	rec := x.dryRun(st, fr, b, nil)
	entry := st.snapshot()
	if st.loopEntry == nil {
		st.loopEntry = map[*ssa.BasicBlock]*State{}
	} else {
		m := make(map[*ssa.BasicBlock]*State, len(st.loopEntry)+1)
		for k2, v2 := range st.loopEntry {
			m[k2] = v2
		}
		st.loopEntry = m
	}
	st.loopEntry[b] = entry
	entryCells := map[*ssa.Alloc]T{}
	for a, v := range st.cells {
		entryCells[a] = v
	}
	mark := freshCtr
	x.havocRec(st, rec, nil)
	rec2 := x.dryRun(st, fr, b, rec)
	// final havoc: restore and havoc with point precision where stable
	for n := range rec2.heaps {
		if _, ok := rec.heaps[n]; !ok {
			rec.heaps[n] = rec2.heaps[n]
			rec.whole[n] = true
		}
	}
	for a := range rec2.cells {
		rec.cells[a] = true
	}
	for g, srt := range rec2.ghosts {
		rec.ghosts[g] = srt
	}
	for g := range rec2.globals {
		rec.globals[g] = true
	}
	for n, w := range rec2.whole {
		if w {
			rec.whole[n] = true
		}
	}
	// restore pre-havoc heaps, then havoc precisely
	for n := range rec.heaps {
		if h, ok := entry.heaps[n]; ok {
			st.heaps[n] = h
		} else {
			delete(st.heaps, n)
		}
	}
	for a := range rec.cells {
		if v, ok := entryCells[a]; ok {
			st.cells[a] = v
		}
	}
	for g := range rec.ghosts {
		if v, ok := entry.ghost[g]; ok {
			st.ghost[g] = v
		}
	}
	stable := map[string][]T{}
	for n, refs := range rec2.refs {
		if rec.whole[n] {
			continue
		}
		ok := true
		for _, r := range refs {
			if !stableTerm(r.S, mark) {
				ok = false
				break
			}
		}
		if ok {
			stable[n] = refs
		}
	}
	var wholeHeaps []string
	for _, n := range sortedKeys(rec.heaps) {
		if refs, ok := stable[n]; ok && len(refs) > 0 && len(refs) <= 4 {
			continue
		}
		wholeHeaps = append(wholeHeaps, n)
	}
	// the loop-frame invariant refers to the contract of the function being verified, also for loops of
	// callees that are executed in place
	tf := topFrame(fr)
	if tf.contract != nil && !tf.contract.ModAll && len(wholeHeaps) > 0 {
		if x.dry == 0 {
			x.loopFrameHeaps[b] = wholeHeaps
			g := x.frameGoal(st, tf, wholeHeaps, declConst("frame.r", SInt))
			x.addCheck(st, fr, fmt.Sprintf("%s/frame/init", loopName(fr, ord)), g, b.Instrs[0].Pos(), "the function's frame holds at loop entry")
		}
	}
	if spec != nil && !spec.Flags["keepquant"] {
		// full cut for quantified facts: what is needed later must be in the invariant
		n := 1
		if st.ev != nil {
			n = st.ev.n + 1
		}
		st.ev = &Event{Kind: EvAssume, Text: "true", Cut: true, prev: st.ev, n: n}
	}
	x.havocRec(st, rec, stable)
	if tf.contract != nil && !tf.contract.ModAll && len(wholeHeaps) > 0 {
		// one quantified frame fact per heap, triggered only by a read of that heap's new version
		q := T{quoteSym("q frame r"), SInt}
		for _, hn := range wholeHeaps {
			g := x.frameGoal(st, tf, []string{hn}, q)
			if g.S == "true" {
				continue
			}
			curKeep = true
			if cur, ok := st.heaps[hn]; ok {
				st.assume(T{fmt.Sprintf("(forall ((%s Int)) (! %s :pattern ((select %s %s))))", q.S, g.S, cur.S, q.S), SBool})
			} else {
				st.assume(T{fmt.Sprintf("(forall ((%s Int)) %s)", q.S, g.S), SBool})
			}
			curKeep = false
		}
	}
	// typing facts and structural facts
	x.rangeIndexFacts(st, fr, b)
	if spec != nil {
		ctx := x.invCtx(st, fr, c)
		ctx.entry = entry
		for j, inv := range spec.Invariants {
			g, ok := x.evalInv(ctx, inv, c)
			if !ok {
				continue
			}
			curTag = fmt.Sprintf("%s#L%d/inv#%d", fr.fn.String(), ord, j+1)
			st.assume(g)
			curTag = ""
		}
	} else if x.dry == 0 {
		x.note("loop #%d of %s has no invariant (only structural facts are kept)", ord, funcDisplayName(fr.fn))
	}
	return true
}

func stableTerm(s string, mark int) bool {
	// a term is stable when it mentions no symbol created after mark
	i := 0
	for i < len(s) {
		j := strings.IndexByte(s[i:], '!')
		if j < 0 {
			return true
		}
		j += i + 1
		k := j
		for k < len(s) && s[k] >= '0' && s[k] <= '9' {
			k++
		}
		if k > j {
			n, _ := strconv.Atoi(s[j:k])
			if n > mark {
				return false
			}
		}
		i = k
	}
	return true
}

func (x *Exec) havocRec(st *State, rec *modRecorder, stable map[string][]T) {
	var cellList []*ssa.Alloc
	for a := range rec.cells {
		cellList = append(cellList, a)
	}
	sort.Slice(cellList, func(i, j int) bool {
		if cellList[i].Pos() != cellList[j].Pos() {
			return cellList[i].Pos() < cellList[j].Pos()
		}
		return cellList[i].Name()+cellList[i].Comment < cellList[j].Name()+cellList[j].Comment
	})
	for _, a := range cellList {
		t := deref(a.Type())
		nv := fresh("h "+a.Comment, sortOf(t))
		st.assume(typingFact(t, nv))
		st.cells[a] = nv
	}
	for _, n := range sortedKeys(rec.heaps) {
		sort := rec.heaps[n]
		if refs, ok := stable[n]; ok && len(refs) > 0 && len(refs) <= 4 {
			h := st.heap(n, sort)
			for _, r := range refs {
				h = store(h, r, fresh("hv", arrayElemSort(sort)))
			}
			st.setHeap(n, h)
			continue
		}
		if x.immutableHeaps[n] && st.entryNext.S != "" {
			if h, ok := st.heaps[n]; ok {
				x.havocYoung(st, n, h)
				st.modHeaps[n] = true
				continue
			}
		}
		st.heaps[n] = fresh(n, sort)
		st.modHeaps[n] = true
	}
	for _, g := range sortedKeys(rec.ghosts) {
		st.ghost[g] = fresh("ghost "+g, rec.ghosts[g])
	}
	var globList []*ssa.Global
	for g := range rec.globals {
		globList = append(globList, g)
	}
	sort.Slice(globList, func(i, j int) bool { return globList[i].String() < globList[j].String() })
	for _, g := range globList {
		t := deref(g.Type())
		nv := fresh("G "+g.Name(), sortOf(t))
		st.assume(typingFact(t, nv))
		st.globals[g] = nv
	}
	st.bumpNext()
}

// dryRun executes the loop body from the header on a clone, with checks off.
func (x *Exec) dryRun(st *State, fr *Frame, header *ssa.BasicBlock, prev *modRecorder) *modRecorder {
	rec := newRecorder()
	base := st.clone()
	run := st.clone()
	run.storeLog = &storeLog{}
	savedRec, savedHeader, savedBase, savedFrame := x.dryRec, x.dryHeader, x.dryBase, x.dryFrame
	x.dry++
	x.dryRec, x.dryHeader, x.dryBase, x.dryFrame = rec, header, base, fr
	savedPaths := x.paths
	func() {
		defer func() {
			x.dry--
			x.dryRec, x.dryHeader, x.dryBase, x.dryFrame = savedRec, savedHeader, savedBase, savedFrame
			x.paths = savedPaths
		}()
		x.runFrom(run, fr, header, 0)
	}()
	return rec
}

type storeLog struct {
	entries []storeEntry
}

type storeEntry struct {
	heap string
	ref  T
}

func (x *Exec) recordStoreRefs(st *State) {
	if st.storeLog == nil || x.dryRec == nil {
		return
	}
	for _, e := range st.storeLog.entries {
		x.dryRec.refs[e.heap] = appendUniq(x.dryRec.refs[e.heap], e.ref)
	}
}

func appendUniq(l []T, t T) []T {
	for _, o := range l {
		if o.S == t.S {
			return l
		}
	}
	return append(l, t)
}

// rangeIndexFacts assumes the structural bounds of a rangeindex loop header.
func (x *Exec) rangeIndexFacts(st *State, fr *Frame, b *ssa.BasicBlock) {
	if !strings.HasPrefix(b.Comment, "rangeindex.loop") {
		return
	}
	var idx *ssa.Alloc
	var bound ssa.Value
	for _, ins := range b.Instrs {
		switch v := ins.(type) {
		case *ssa.UnOp:
			if a, ok := v.X.(*ssa.Alloc); ok && a.Comment == "rangeindex" && v.Op == token.MUL {
				idx = a
			}
		case *ssa.BinOp:
			if v.Op == token.LSS {
				bound = v.Y
			}
		}
	}
	if idx == nil || bound == nil {
		return
	}
	i, ok := st.cells[idx]
	if !ok {
		return
	}
	n := x.term(st, bound)
	st.assume(and(app(SBool, "<=", mkInt(-1), i), or(app(SBool, "<", i, n), eq(i, mkInt(-1)))))
}

// invCtx evaluates loop invariants: local variables by name, then parameters.
func (x *Exec) invCtx(st *State, fr *Frame, c *Contract) *EvalCtx {
	ctx := x.ctxFor(c, st, fr.pre, fr.env, fr.fn)
	ctx.locals = fr
	return ctx
}

// localSV resolves a local variable of the frame's function by source name.
func (x *Exec) localSV(st *State, fr *Frame, name string) (SV, bool) {
	want := 1
	base := name
	if i := strings.IndexByte(name, '#'); i > 0 {
		n, err := strconv.Atoi(name[i+1:])
		if err == nil {
			want = n
			base = name[:i]
		}
	}
	seen := 0
	explicit := strings.IndexByte(name, '#') > 0
	var found *ssa.Alloc
	for _, b := range fr.fn.Blocks {
		for _, ins := range b.Instrs {
			if a, ok := ins.(*ssa.Alloc); ok && a.Comment == base {
				seen++
				if explicit {
					if seen == want {
						found = a
					}
					continue
				}
				// without an ordinal: the first variable of that name that is live on this path
				if found == nil {
					if _, ok := st.cells[a]; ok {
						found = a
					} else if _, ok := st.vals[a]; ok {
						found = a
					}
				}
			}
		}
	}
	if found == nil {
		// free variables of closures
		for _, fv := range fr.fn.FreeVars {
			if fv.Name() == base {
				if b, ok := st.vals[fv]; ok {
					return x.freeVarSV(st, b, fv), true
				}
			}
		}
		return SV{}, false
	}
	t := deref(found.Type())
	if !found.Heap {
		v, ok := st.cells[found]
		if !ok {
			v = zeroOf(t)
		}
		return SV{t: v, typ: t}, true
	}
	rv, ok := st.vals[found]
	if !ok {
		return SV{}, false
	}
	a := refAddr(rv.T, t)
	if arr, isArr := t.Underlying().(*types.Array); isArr {
		return SV{t: sel(st.arrHeap(arr.Elem()), rv.T), typ: t}, true
	}
	if isStruct(t) {
		return SV{addr: a, typ: t}, true
	}
	return SV{t: st.load(a), typ: t}, true
}

// loopName names loop #ord of the frame's function; loops of a callee executed in place carry the callee's name.
func loopName(fr *Frame, ord int) string {
	if fr.parent == nil {
		return fmt.Sprintf("loop#%d", ord)
	}
	n := fr.fn.Name()
	if r := fr.fn.Signature.Recv(); r != nil {
		n = strings.TrimPrefix(strings.TrimPrefix(types.TypeString(r.Type(), func(*types.Package) string { return "" }), "*"), ".") + "." + n
	}
	return fmt.Sprintf("loop#%d@%s", ord, n)
}

// evalInv evaluates a loop invariant; a clause that cannot be evaluated on the present code is skipped
// (recorded in softErr) instead of aborting the function.
func (x *Exec) evalInv(ctx *EvalCtx, inv Clause, c *Contract) (g T, ok bool) {
	defer func() {
		if r := recover(); r != nil {
			if se, isSpec := r.(specErr); isSpec {
				if x.softErr == "" {
					x.softErr = se.msg
				}
				ok = false
				return
			}
			panic(r)
		}
	}()
	return x.evalClause(ctx, inv, c), true
}
