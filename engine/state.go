package main

import (
	"fmt"
	"go/types"
	"math/big"
	"sort"
	"strings"

	"golang.org/x/tools/go/ssa"
)

// ---------------------------------------------------------------------------
// Global symbol registry (constants, uninterpreted functions, axioms).
// Scripts declare exactly the registered symbols that occur in them.

type symInfo struct {
	decl string // full declaration command
}

var (
	symbols   = map[string]*symInfo{} // quoted symbol -> decl
	freshCtr  int
	axioms    []*axiom
	typeTags  = map[string]int{}
	typeByTag = map[int]types.Type{}
	funcIDs   = map[string]int{}
)

type axiom struct {
	triggers []string // included when any of these symbols occurs
	text     string   // assertion body
	key      string
}

var axiomSeen = map[string]bool{}

func addAxiom(key string, triggers []string, text string) {
	if axiomSeen[key] {
		return
	}
	axiomSeen[key] = true
	axioms = append(axioms, &axiom{triggers, text, key})
}

func declConst(name, sort string) T {
	for i := 0; ; i++ {
		n := name
		if i > 0 {
			n = fmt.Sprintf("%s~%d", name, i)
		}
		q := quoteSym(n)
		want := fmt.Sprintf("(declare-const %s %s)", q, sort)
		si, ok := symbols[q]
		if !ok {
			symbols[q] = &symInfo{want}
			return T{q, sort}
		}
		if si.decl == want {
			return T{q, sort}
		}
		// same name with another sort (e.g. a parameter name reused by another function): pick a variant
	}
}

func declFun(name string, argSorts []string, res string) string {
	q := quoteSym(name)
	if _, ok := symbols[q]; !ok {
		symbols[q] = &symInfo{fmt.Sprintf("(declare-fun %s (%s) %s)", q, strings.Join(argSorts, " "), res)}
	}
	return q
}

func defFun(name string, params []T, res string, body T) string {
	q := quoteSym(name)
	if _, ok := symbols[q]; !ok {
		var ps []string
		for _, p := range params {
			ps = append(ps, fmt.Sprintf("(%s %s)", p.S, p.Sort))
		}
		symbols[q] = &symInfo{fmt.Sprintf("(define-fun %s (%s) %s %s)", q, strings.Join(ps, " "), res, body.S)}
	}
	return q
}

func fresh(prefix, sort string) T {
	freshCtr++
	return declConst(fmt.Sprintf("%s!%d", prefix, freshCtr), sort)
}

func typeTag(t types.Type) int {
	k := typeStr(t)
	if id, ok := typeTags[k]; ok {
		return id
	}
	id := len(typeTags) + 1
	typeTags[k] = id
	typeByTag[id] = t
	return id
}

func funcID(f *ssa.Function) int {
	k := f.String()
	if id, ok := funcIDs[k]; ok {
		return id
	}
	id := len(funcIDs) + 1
	funcIDs[k] = id
	return id
}

// collectSymbols tokenises SMT text and returns the set of symbols in it.
func collectSymbols(text string, into map[string]bool) {
	i := 0
	n := len(text)
	for i < n {
		c := text[i]
		switch {
		case c == '|':
			j := i + 1
			for j < n && text[j] != '|' {
				j++
			}
			into[text[i:j+1]] = true
			i = j + 1
		case c == '"':
			j := i + 1
			for j < n {
				if text[j] == '"' {
					if j+1 < n && text[j+1] == '"' {
						j += 2
						continue
					}
					break
				}
				j++
			}
			i = j + 1
		case c == '(' || c == ')' || c == ' ' || c == '\n' || c == '\t':
			i++
		default:
			j := i
			for j < n && text[j] != '(' && text[j] != ')' && text[j] != ' ' && text[j] != '\n' && text[j] != '\t' {
				j++
			}
			into[text[i:j]] = true
			i = j
		}
	}
}

// declsFor returns the declarations (and triggered axioms) needed by body.
func declsFor(body string, level int) (decls string, axs string) {
	used := map[string]bool{}
	collectSymbols(body, used)
	var axOut []string
	included := map[string]bool{}
	for changed := true; changed; {
		changed = false
		for _, a := range axioms {
			if included[a.key] {
				continue
			}
			if level >= 0 && level%10 <= 1 && strings.HasPrefix(a.key, "heapwf ") {
				continue // closed-world heap axioms only from relevance level 2 on
			}
			if level >= 10 && strings.HasPrefix(a.key, "def ") {
				continue // levels 10+: definitions of pure spec functions stay hidden (opaque)
			}
			for _, t := range a.triggers {
				if used[t] {
					included[a.key] = true
					axOut = append(axOut, "(assert "+a.text+")")
					collectSymbols(a.text, used)
					changed = true
					break
				}
			}
		}
		// definitions may reference further symbols
		for s := range used {
			if si, ok := symbols[s]; ok && strings.HasPrefix(si.decl, "(define-fun") {
				before := len(used)
				collectSymbols(si.decl, used)
				if len(used) != before {
					changed = true
				}
			}
		}
	}
	var ds, defs []string
	for s := range used {
		if si, ok := symbols[s]; ok {
			if strings.HasPrefix(si.decl, "(define-fun") {
				defs = append(defs, si.decl)
			} else {
				ds = append(ds, si.decl)
			}
		}
	}
	sort.Strings(ds)
	// definitions must come after the symbols they use; order them by dependency (simple: repeated passes)
	defs = orderDefs(defs)
	return strings.Join(ds, "\n") + "\n" + strings.Join(defs, "\n") + "\n", strings.Join(axOut, "\n") + "\n"
}

func orderDefs(defs []string) []string {
	sort.Strings(defs)
	name := func(d string) string {
		rest := d[len("(define-fun "):]
		if rest[0] == '|' {
			return rest[:strings.IndexByte(rest[1:], '|')+2]
		}
		return rest[:strings.IndexByte(rest, ' ')]
	}
	var out []string
	done := map[string]bool{}
	names := map[string]bool{}
	for _, d := range defs {
		names[name(d)] = true
	}
	for len(out) < len(defs) {
		progress := false
		for _, d := range defs {
			n := name(d)
			if done[n] {
				continue
			}
			used := map[string]bool{}
			collectSymbols(d, used)
			ok := true
			for u := range used {
				if u != n && names[u] && !done[u] {
					ok = false
					break
				}
			}
			if ok {
				out = append(out, d)
				done[n] = true
				progress = true
			}
		}
		if !progress {
			for _, d := range defs {
				if !done[name(d)] {
					out = append(out, d)
					done[name(d)] = true
				}
			}
		}
	}
	return out
}

// ---------------------------------------------------------------------------
// Executor-level values and addresses.

type addrKind int

const (
	aLocal addrKind = iota
	aGlobal
	aCell
	aElem
	aStruct
)

type pstep struct {
	isIndex bool
	field   int
	index   T
	cont    types.Type // type of the container this step projects from
}

type Addr struct {
	kind  addrKind
	alloc *ssa.Alloc
	glob  *ssa.Global
	root  T
	rootT types.Type // type of the root location's content
	idx   T
	path  []pstep
	typ   types.Type // type of the addressed location
}

func (a *Addr) extend(st pstep, typ types.Type) *Addr {
	b := *a
	b.path = append(append([]pstep{}, a.path...), st)
	b.typ = typ
	return &b
}

type FnVal struct {
	fn       *ssa.Function
	bindings []Val
}

type Val struct {
	T
	typ   types.Type
	addr  *Addr
	tuple []Val
	fn    *FnVal
	prot  *protInfo // value read from / address of a mutex-protected field
	boxed *Val      // interface value made from this (statically known) value: lets an invoke be devirtualized
}

type deferred struct {
	call *ssa.CallCommon
	args []Val
	fnv  Val
	pos  string
}

// State of one symbolic path.
type State struct {
	vals     map[ssa.Value]Val
	cells    map[*ssa.Alloc]T
	globals  map[*ssa.Global]T
	heaps    map[string]T
	ghost    map[string]T
	ev       *Event
	next     T
	defers   []deferred
	cut      map[*ssa.BasicBlock]bool // loop headers already cut on this path
	closures map[string]*FnVal
	panicking bool
	recovered bool
	prevBlock *ssa.BasicBlock
	modHeaps  map[string]bool // heaps havocked wholesale (frame bookkeeping)
	infeasible bool
	storeLog  *storeLog
	concreteAlloc bool
	loopEntry map[*ssa.BasicBlock]*State
	entryNext T
	boxes     map[string]*Val // interface terms made from statically known values (shared, append-only)
	boxAt     map[string]boxRec // what a cell holds when a boxed value was stored into it (valid while the cell heap keeps that version)
}

type boxRec struct {
	b    *Val
	heap string // term of the cell heap right after the store ("" for register-like locals)
}

func (s *State) clone() *State {
	n := &State{
		vals: make(map[ssa.Value]Val, len(s.vals)), cells: make(map[*ssa.Alloc]T, len(s.cells)),
		globals: make(map[*ssa.Global]T, len(s.globals)), heaps: make(map[string]T, len(s.heaps)),
		ghost: make(map[string]T, len(s.ghost)), ev: s.ev, next: s.next,
		defers: append([]deferred{}, s.defers...), cut: make(map[*ssa.BasicBlock]bool, len(s.cut)),
		closures: make(map[string]*FnVal, len(s.closures)), panicking: s.panicking, recovered: s.recovered,
		prevBlock: s.prevBlock, modHeaps: make(map[string]bool, len(s.modHeaps)), storeLog: s.storeLog, concreteAlloc: s.concreteAlloc, loopEntry: s.loopEntry, entryNext: s.entryNext, boxes: s.boxes, boxAt: copyBoxAt(s.boxAt),
	}
	for k, v := range s.vals {
		n.vals[k] = v
	}
	for k, v := range s.cells {
		n.cells[k] = v
	}
	for k, v := range s.globals {
		n.globals[k] = v
	}
	for k, v := range s.heaps {
		n.heaps[k] = v
	}
	for k, v := range s.ghost {
		n.ghost[k] = v
	}
	for k, v := range s.cut {
		n.cut[k] = v
	}
	for k, v := range s.closures {
		n.closures[k] = v
	}
	for k, v := range s.modHeaps {
		n.modHeaps[k] = v
	}
	return n
}

// snapshot keeps only what spec evaluation of old(...) needs.
func (s *State) snapshot() *State {
	n := &State{heaps: make(map[string]T, len(s.heaps)), ghost: make(map[string]T, len(s.ghost)),
		globals: make(map[*ssa.Global]T, len(s.globals)), cells: make(map[*ssa.Alloc]T, len(s.cells)), next: s.next, ev: s.ev,
		closures: s.closures, entryNext: s.entryNext, vals: make(map[ssa.Value]Val, len(s.vals))}
	for k, v := range s.vals {
		n.vals[k] = v // SSA values are assigned once: lets entry()/old() resolve heap-allocated locals
	}
	for k, v := range s.heaps {
		n.heaps[k] = v
	}
	for k, v := range s.ghost {
		n.ghost[k] = v
	}
	for k, v := range s.globals {
		n.globals[k] = v
	}
	for k, v := range s.cells {
		n.cells[k] = v
	}
	return n
}

// define assumes c = t where c is a fresh constant (a sliceable definition).
func (s *State) define(c T, t T) {
	n := 1
	if s.ev != nil {
		n = s.ev.n + 1
	}
	s.ev = &Event{Kind: EvAssume, Text: eq(c, t).S, Def: c.S, prev: s.ev, n: n, Init: inInitPhase}
}

func (s *State) assume(t T) {
	if t.S == "true" {
		return
	}
	// split conjunctions that contain quantifiers, so that cutting / filtering
	// quantified assumptions never discards their ground conjuncts
	if strings.Contains(t.S, "(forall ") && (strings.HasPrefix(t.S, "(and ") || strings.HasPrefix(t.S, "(=> ")) {
		if parts := splitConj(t.S); len(parts) > 1 {
			for _, p := range parts {
				s.assume(T{p, SBool})
			}
			return
		}
	}
	n := 1
	if s.ev != nil {
		n = s.ev.n + 1
	}
	s.ev = &Event{Kind: EvAssume, Text: t.S, prev: s.ev, n: n, Init: inInitPhase, Tag: curTag, Keep: curKeep}
}

// heap returns the current term of a heap, creating its initial constant.
func (s *State) heap(name, sort string) T {
	if h, ok := s.heaps[name]; ok {
		return h
	}
	h := declConst(name, sort)
	s.heaps[name] = h
	return h
}

func (s *State) setHeap(name string, v T) {
	// name long store chains: introduce a constant to keep terms small
	if len(v.S) > 200 {
		c := fresh(name, v.Sort)
		s.define(c, v)
		v = c
	}
	s.heaps[name] = v
}

func (s *State) fieldHeap(st types.Type, l leaf) T {
	n := fieldHeapName(st, l.name())
	registerHeapWF(n, l.typ, false)
	return s.heap(n, arraySort(SInt, sortOf(l.typ)))
}

func (s *State) cellHeap(t types.Type) T {
	registerHeapWF(cellHeapName(t), t, false)
	return s.heap(cellHeapName(t), arraySort(SInt, sortOf(t)))
}

func (s *State) arrHeap(elem types.Type) T {
	registerHeapWF(arrHeapName(elem), elem, true)
	return s.heap(arrHeapName(elem), arraySort(SInt, arraySort(SInt, sortOf(elem))))
}

// entryNextSym is the allocation counter at function entry as a symbol usable in
// background axioms (each function verification assumes its value).
func entryNextSym() T { return declConst("entry.next", SInt) }

// allocatedFact: every reference stored in a value of type t was allocated before `bound`.
func allocatedFact(t types.Type, v T, bound T, depth int) T {
	if depth > 3 {
		return mkBool(true)
	}
	switch u := t.Underlying().(type) {
	case *types.Pointer, *types.Map, *types.Signature, *types.Chan:
		return and(app(SBool, "<=", mkInt(0), v), app(SBool, "<", v, bound))
	case *types.Slice:
		return app(SBool, "<", sliceArr(v), bound)
	case *types.Interface:
		return app(SBool, "<", ifacePl(v), bound)
	case *types.Struct:
		var fs []T
		for i := 0; i < u.NumFields(); i++ {
			fs = append(fs, allocatedFact(u.Field(i).Type(), structField(t, v, i), bound, depth+1))
		}
		return and(fs...)
	}
	return mkBool(true)
}

var heapWFSeen = map[string]bool{}

// registerHeapWF adds the closed-world axiom for the entry contents of a heap:
// references stored in objects that exist at function entry point to objects
// allocated before entry (Go has no dangling or forged pointers).
func registerHeapWF(name string, t types.Type, isArr bool) {
	if heapWFSeen[name] {
		return
	}
	heapWFSeen[name] = true
	h := quoteSym(name)
	bound := entryNextSym()
	if isArr {
		e := T{"(select (select " + h + " r) i)", sortOf(t)}
		f := allocatedFact(t, e, bound, 0)
		if f.S == "true" {
			return
		}
		// closed world for the objects that exist at entry only: an object allocated later may be described by a
		// callee's postcondition through the same heap symbol and may well point to other new objects
		addAxiom("heapwf "+name, []string{h}, fmt.Sprintf("(forall ((r Int) (i Int)) (! (=> (< r %s) %s) :pattern ((select (select %s r) i))))", bound.S, f.S, h))
		return
	}
	e := T{"(select " + h + " r)", sortOf(t)}
	f := allocatedFact(t, e, bound, 0)
	if f.S == "true" {
		return
	}
	addAxiom("heapwf "+name, []string{h}, fmt.Sprintf("(forall ((r Int)) (! (=> (< r %s) %s) :pattern ((select %s r))))", bound.S, f.S, h))
}

func (s *State) mapDom(m types.Type) T {
	mt := m.Underlying().(*types.Map)
	return s.heap(mapDomName(m), arraySort(SInt, arraySort(sortOf(mt.Key()), SBool)))
}

func (s *State) mapVal(m types.Type) T {
	mt := m.Underlying().(*types.Map)
	return s.heap(mapValName(m), arraySort(SInt, arraySort(sortOf(mt.Key()), sortOf(mt.Elem()))))
}

// name a term by a fresh constant if it is large.
func (s *State) name(prefix string, t T) T {
	if len(t.S) <= 120 {
		return t
	}
	c := fresh(prefix, t.Sort)
	s.define(c, t)
	return c
}

// ---------------------------------------------------------------------------
// Loads and stores through addresses.

func project(v T, path []pstep) T {
	for _, st := range path {
		if st.isIndex {
			v = sel(v, st.index)
		} else {
			v = structField(st.cont, v, st.field)
		}
	}
	return v
}

func update(v T, path []pstep, nv T) T {
	if len(path) == 0 {
		return nv
	}
	st := path[0]
	if st.isIndex {
		inner := update(sel(v, st.index), path[1:], nv)
		return store(v, st.index, inner)
	}
	inner := update(structField(st.cont, v, st.field), path[1:], nv)
	return structUpdate(st.cont, v, st.field, inner)
}

// splitLeaf splits a path on a heap struct into (leaf, remaining path). If the
// path ends inside the struct nest (location is itself a struct), ok=false and
// prefix is the field-index prefix.
func splitLeaf(rootT types.Type, path []pstep) (l leaf, rest []pstep, isLeaf bool, prefix []int) {
	t := rootT
	var idxs []int
	var names []string
	for i, st := range path {
		if st.isIndex {
			panic("index step before reaching a leaf")
		}
		stt := t.Underlying().(*types.Struct)
		f := stt.Field(st.field)
		idxs = append(idxs, st.field)
		fname := f.Name()
		if fname == "_" {
			fname = fmt.Sprintf("_%d", st.field)
		}
		names = append(names, fname)
		t = f.Type()
		if !isStruct(t) {
			return leaf{idxs, names, t}, path[i+1:], true, nil
		}
	}
	return leaf{}, nil, false, idxs
}

func hasPrefix(p, prefix []int) bool {
	if len(p) < len(prefix) {
		return false
	}
	for i := range prefix {
		if p[i] != prefix[i] {
			return false
		}
	}
	return true
}

// assembleStruct builds the datatype value of the (sub)struct at field-index
// prefix of the heap object root.
func (s *State) assembleStruct(root T, rootT types.Type, t types.Type, prefix []int, names []string) T {
	st := t.Underlying().(*types.Struct)
	args := make([]T, st.NumFields())
	for i := 0; i < st.NumFields(); i++ {
		f := st.Field(i)
		p := append(append([]int{}, prefix...), i)
		fname := f.Name()
		if fname == "_" {
			fname = fmt.Sprintf("_%d", i)
		}
		n := append(append([]string{}, names...), fname)
		if isStruct(f.Type()) {
			args[i] = s.assembleStruct(root, rootT, f.Type(), p, n)
		} else {
			args[i] = sel(s.fieldHeap(rootT, leaf{p, n, f.Type()}), root)
		}
	}
	return structMake(t, args)
}

func (s *State) scatterStruct(root T, rootT types.Type, t types.Type, prefix []int, names []string, v T) {
	st := t.Underlying().(*types.Struct)
	for i := 0; i < st.NumFields(); i++ {
		f := st.Field(i)
		p := append(append([]int{}, prefix...), i)
		fname := f.Name()
		if fname == "_" {
			fname = fmt.Sprintf("_%d", i)
		}
		n := append(append([]string{}, names...), fname)
		fv := structField(t, v, i)
		if isStruct(f.Type()) {
			s.scatterStruct(root, rootT, f.Type(), p, n, fv)
		} else {
			l := leaf{p, n, f.Type()}
			s.logStore(fieldHeapName(rootT, l.name()), root)
			s.setHeap(fieldHeapName(rootT, l.name()), store(s.fieldHeap(rootT, l), root, fv))
		}
	}
}

func prefixNames(rootT types.Type, prefix []int) ([]string, types.Type) {
	t := rootT
	var names []string
	for _, i := range prefix {
		f := t.Underlying().(*types.Struct).Field(i)
		fname := f.Name()
		if fname == "_" {
			fname = fmt.Sprintf("_%d", i)
		}
		names = append(names, fname)
		t = f.Type()
	}
	return names, t
}

func (s *State) load(a *Addr) T {
	switch a.kind {
	case aLocal:
		base, ok := s.cells[a.alloc]
		if !ok {
			base = zeroOf(a.rootT)
		}
		return project(base, a.path)
	case aGlobal:
		base, ok := s.globals[a.glob]
		if !ok {
			base = declConst("G "+a.glob.String(), sortOf(a.rootT))
			s.globals[a.glob] = base
			s.assume(typingFact(a.rootT, base))
			if a.glob.Pkg != nil && !strings.HasPrefix(a.glob.Pkg.Pkg.Path(), modulePath) && base.Sort == SIface && types.Identical(a.rootT, types.Universe.Lookup("error").Type()) {
				// sentinel errors of external packages (io.EOF, rsa.ErrVerification, ...) are non-nil
				s.assume(not(eq(ifaceTag(base), mkInt(0))))
			}
			if base.Sort == SIface && s.entryNext.S != "" {
				s.assume(app(SBool, "<", ifacePl(base), s.entryNext))
			}
			if isPointerLike(a.rootT) && s.entryNext.S != "" {
				s.assume(app(SBool, "<", base, s.entryNext))
			}
		}
		return project(base, a.path)
	case aCell:
		return project(sel(s.cellHeap(a.rootT), a.root), a.path)
	case aElem:
		return project(sel(sel(s.arrHeap(a.rootT), a.root), a.idx), a.path)
	case aStruct:
		l, rest, isLeaf, prefix := splitLeaf(a.rootT, a.path)
		if isLeaf {
			return project(sel(s.fieldHeap(a.rootT, l), a.root), rest)
		}
		names, t := prefixNames(a.rootT, prefix)
		return s.assembleStruct(a.root, a.rootT, t, prefix, names)
	}
	panic("load: bad address kind")
}

func (s *State) store(a *Addr, v T) {
	switch a.kind {
	case aLocal:
		base, ok := s.cells[a.alloc]
		if !ok {
			base = zeroOf(a.rootT)
		}
		s.cells[a.alloc] = s.name("c", update(base, a.path, v))
	case aGlobal:
		base, ok := s.globals[a.glob]
		if !ok {
			base = declConst("G "+a.glob.String(), sortOf(a.rootT))
		}
		s.globals[a.glob] = s.name("g", update(base, a.path, v))
	case aCell:
		h := s.cellHeap(a.rootT)
		s.logStore(cellHeapName(a.rootT), a.root)
		s.setHeap(cellHeapName(a.rootT), store(h, a.root, update(sel(h, a.root), a.path, v)))
	case aElem:
		h := s.arrHeap(a.rootT)
		arr := sel(h, a.root)
		s.logStore(arrHeapName(a.rootT), a.root)
		s.setHeap(arrHeapName(a.rootT), store(h, a.root, store(arr, a.idx, update(sel(arr, a.idx), a.path, v))))
	case aStruct:
		l, rest, isLeaf, prefix := splitLeaf(a.rootT, a.path)
		if isLeaf {
			h := s.fieldHeap(a.rootT, l)
			s.logStore(fieldHeapName(a.rootT, l.name()), a.root)
			s.setHeap(fieldHeapName(a.rootT, l.name()), store(h, a.root, update(sel(h, a.root), rest, v)))
			return
		}
		names, t := prefixNames(a.rootT, prefix)
		s.scatterStruct(a.root, a.rootT, t, prefix, names, v)
	default:
		panic("store: bad address kind")
	}
}

// allocate returns a fresh non-nil reference distinct from all earlier ones.
func (s *State) allocate(prefix string) T {
	if n, ok := smallConstBig(s.next); ok {
		r := s.next
		s.next = mkBig(new(big.Int).Add(n, big.NewInt(1)))
		return r
	}
	r := fresh(prefix, SInt)
	s.assume(eq(r, s.next))
	nn := fresh("next", SInt)
	s.assume(eq(nn, app(SInt, "+", s.next, mkInt(1))))
	s.next = nn
	return r
}

// bumpNext models allocation by a callee: next grows by an unknown amount.
func (s *State) bumpNext() {
	if n, ok := smallConstBig(s.next); ok && s.concreteAlloc {
		s.next = mkBig(new(big.Int).Add(n, big.NewInt(1000000)))
		return
	}
	nn := fresh("next", SInt)
	s.assume(app(SBool, ">=", nn, s.next))
	s.next = nn
}

func (s *State) logStore(heap string, ref T) {
	if s.storeLog != nil {
		s.storeLog.entries = append(s.storeLog.entries, storeEntry{heap, ref})
	}
}

// splitConj splits (and a b ..) and (=> g (and a b ..)) into separate formulas.
func splitConj(t string) []string {
	args := splitArgs(t)
	if len(args) < 3 {
		return nil
	}
	switch args[0] {
	case "and":
		var out []string
		for _, a := range args[1:] {
			if sub := splitConj(a); len(sub) > 1 {
				out = append(out, sub...)
			} else {
				out = append(out, a)
			}
		}
		return out
	case "=>":
		if len(args) != 3 {
			return nil
		}
		sub := splitConj(args[2])
		if len(sub) <= 1 {
			return nil
		}
		var out []string
		for _, a := range sub {
			out = append(out, "(=> "+args[1]+" "+a+")")
		}
		return out
	}
	return nil
}

func copyBoxAt(m map[string]boxRec) map[string]boxRec {
	if m == nil {
		return nil
	}
	n := make(map[string]boxRec, len(m))
	for k, v := range m {
		n[k] = v
	}
	return n
}

// cellKey identifies a whole-cell address (no path) for boxAt; ok is false for anything else.
func (s *State) cellKey(a *Addr) (key string, heap string, ok bool) {
	if a == nil || len(a.path) != 0 {
		return "", "", false
	}
	switch a.kind {
	case aLocal:
		return fmt.Sprintf("L%p", a.alloc), "", true
	case aCell:
		hn := cellHeapName(a.rootT)
		if h, ok := s.heaps[hn]; ok {
			return hn + "@" + a.root.S, h.S, true
		}
	}
	return "", "", false
}
