package main

import (
	"go/types"
)

// call logs and lock state: filled in by logs.go

func (x *Exec) extraChecks(plan *Plan, only interface{ MatchString(string) bool }) {}

var _ = types.Typ

func (x *Exec) logCall(st *State, c *Contract, name string, args []Val, res []Val, panicked bool) {}

func (x *Exec) logExpr(c *EvalCtx, v *ECall) SV { sfail("call logs not implemented"); return SV{} }

func (x *Exec) lockExpr(c *EvalCtx, v *ECall) SV { sfail("lock state not implemented"); return SV{} }
