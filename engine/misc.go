package main

import (
	"fmt"
	"regexp"
	"strings"

	"golang.org/x/tools/go/ssa"
)

// registerAxioms turns the `axiom` clauses of all spec files into background
// axioms (assumed facts about ghost functions; listed in the evidence).
func (x *Exec) registerAxioms() error {
	var err error
	all := append([]*SpecFile{}, x.extSpecs...)
	for _, k := range sortedKeys(x.specs) {
		all = append(all, x.specs[k])
	}
	for _, sf := range all {
		for _, l := range sf.Lemmas {
			if !l.Axiom {
				continue
			}
			func() {
				defer func() {
					if r := recover(); r != nil {
						if se, ok := r.(specErr); ok {
							err = fmt.Errorf("%s: axiom %s: %s", sf.Path, l.Name, se.msg)
							return
						}
						panic(r)
					}
				}()
				body, binders := x.closedFormula(sf, l, true)
				text := body.S
				if len(binders) > 0 {
					text = fmt.Sprintf("(forall (%s) %s)", strings.Join(binders, " "), body.S)
				}
				used := map[string]bool{}
				collectSymbols(text, used)
				var trig []string
				for s := range used {
					if strings.HasPrefix(s, "|ghost ") {
						trig = append(trig, s)
					}
				}
				addAxiom("axiom "+sf.Pkg+"::"+l.Name, trig, text)
				x.axiomNames = append(x.axiomNames, sf.Pkg+"::"+l.Name+": "+l.Text)
			}()
		}
	}
	return err
}

func (x *Exec) closedFormula(sf *SpecFile, l *Lemma, bind bool) (T, []string) {
	st := newState()
	pkg := x.typesPkg(sf.Pkg)
	ctx := &EvalCtx{x: x, st: st, old: st, env: map[string]SV{}, pkg: pkg, sf: sf}
	var binders []string
	for _, v := range l.Vars {
		sort, typ := x.ghostSort(v.Type, pkg, sf)
		var t T
		if bind {
			t = T{quoteSym("a " + v.Name), sort}
			binders = append(binders, fmt.Sprintf("(%s %s)", t.S, sort))
		} else {
			t = declConst("lv "+l.Name+" "+v.Name, sort)
		}
		ctx.env[v.Name] = SV{t: t, typ: typ}
	}
	return ctx.boolOf(l.E), binders
}

func (x *Exec) tableChecks(plan *Plan, only *regexp.Regexp) {
	for _, name := range plan.Tables {
		if only != nil && !only.MatchString(name) {
			continue
		}
		i := strings.LastIndexByte(name, '.')
		pkgPath := modulePath + "/" + name[:i]
		varName := name[i+1:]
		sf := x.specs[pkgPath]
		var pin *TablePin
		if sf != nil {
			for _, t := range sf.Tables {
				if t.Var == varName {
					pin = t
				}
			}
		}
		if pin == nil {
			x.lemmaErrs = append(x.lemmaErrs, "table pin "+name+" not found")
			continue
		}
		func() {
			defer func() {
				if r := recover(); r != nil {
					if se, ok := r.(specErr); ok {
						x.lemmaErrs = append(x.lemmaErrs, fmt.Sprintf("table %s: %s", name, se.msg))
						return
					}
					panic(r)
				}
			}()
			st := x.baseState()
			pkg := x.typesPkg(pkgPath)
			ctx := &EvalCtx{x: x, st: st, old: st, env: map[string]SV{}, pkg: pkg, sf: sf}
			g := ctx.boolOf(pin.E)
			x.checks = append(x.checks, &Check{Name: name[:i] + "/table/" + varName, Goal: g, At: st.ev, Fn: "table " + name, Detail: pin.Text, Where: fmt.Sprintf("%s:%d", sf.Path, pin.Line)})
			// immutability of the variable (whole-module scan)
			imm := false
			if sp := x.ssaPkgs[pkgPath]; sp != nil {
				if gv, ok := sp.Members[varName].(*ssa.Global); ok {
					imm = x.immutable[gv]
				}
			}
			x.checks = append(x.checks, &Check{Name: name[:i] + "/immutable/" + varName, Goal: mkBool(imm), At: nil, Fn: "table " + name, Detail: "no store to " + varName + " (or through it) outside package initialisers"})
		}()
	}
}

func (x *Exec) extraChecks(plan *Plan, only *regexp.Regexp) {
	x.tableChecks(plan, only)
	for _, name := range plan.Lemmas {
		if only != nil && !only.MatchString(name) {
			continue
		}
		found := false
		all := append([]*SpecFile{}, x.extSpecs...)
		for _, k := range sortedKeys(x.specs) {
			all = append(all, x.specs[k])
		}
		for _, sf := range all {
			for _, l := range sf.Lemmas {
				if l.Axiom || l.Name != name {
					continue
				}
				found = true
				func() {
					defer func() {
						if r := recover(); r != nil {
							if se, ok := r.(specErr); ok {
								x.lemmaErrs = append(x.lemmaErrs, fmt.Sprintf("lemma %s: %s", name, se.msg))
								return
							}
							panic(r)
						}
					}()
					body, _ := x.closedFormula(sf, l, false)
					x.checks = append(x.checks, &Check{Name: "lemma/" + name, Goal: body, At: nil, Fn: "lemma " + name, Detail: l.Text, Where: sf.Path})
				}()
			}
		}
		if !found {
			x.lemmaErrs = append(x.lemmaErrs, "lemma "+name+" not found")
		}
	}
}

func (x *Exec) logCall(st *State, c *Contract, name string, args []Val, res []Val, panicked bool) {}

func (x *Exec) logExpr(c *EvalCtx, v *ECall) SV { sfail("call logs not implemented"); return SV{} }

func (x *Exec) lockExpr(c *EvalCtx, v *ECall) SV { sfail("lock state not implemented"); return SV{} }

var _ ssa.Value
