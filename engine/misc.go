package main

import (
	"os"
	"sort"
	"fmt"
	"go/types"
	"regexp"
	"strings"

	"golang.org/x/tools/go/ssa"
)

// registerAxioms turns the `axiom` clauses of all spec files into background
// axioms (assumed facts about ghost functions; listed in the evidence).
func (x *Exec) registerAxioms() error {
	var err error
	all := append([]*SpecFile{}, x.extSpecs...)
	for _, k := range sortedKeys(x.specs) {
		all = append(all, x.specs[k])
	}
	for _, sf := range all {
		for _, l := range sf.Lemmas {
			if !l.Axiom {
				continue
			}
			func() {
				defer func() {
					if r := recover(); r != nil {
						if se, ok := r.(specErr); ok {
							err = fmt.Errorf("%s: axiom %s: %s", sf.Path, l.Name, se.msg)
							return
						}
						panic(r)
					}
				}()
				body, binders := x.closedFormula(sf, l, true)
				text := body.S
				if len(binders) > 0 {
					text = fmt.Sprintf("(forall (%s) %s)", strings.Join(binders, " "), body.S)
					if x.lastAxiomPattern != "" {
						// trig(body, t1, t2, ...): the axiom is instantiated only where all the trigger terms occur
						text = fmt.Sprintf("(forall (%s) (! %s :pattern (%s)))", strings.Join(binders, " "), body.S, x.lastAxiomPattern)
					}
				}
				used := map[string]bool{}
				collectSymbols(text, used)
				var trig []string
				for s := range used {
					if strings.HasPrefix(s, "|ghost ") || strings.HasPrefix(s, "|G ") {
						trig = append(trig, s)
					}
				}
				// a quantified axiom can only be instantiated through an application that has a bound
				// variable as a direct argument: those symbols alone pull it into a query
				if len(binders) > 0 {
					if direct := directVarSymbols(text); len(direct) > 0 {
						trig = direct
					}
				}
				sort.Strings(trig)
				addAxiom("axiom "+sf.Pkg+"::"+l.Name, trig, text)
				x.axiomNames = append(x.axiomNames, sf.Pkg+"::"+l.Name+": "+l.Text)
			}()
		}
	}
	return err
}

func (x *Exec) closedFormula(sf *SpecFile, l *Lemma, bind bool) (T, []string) {
	st := newState()
	pkg := x.typesPkg(sf.Pkg)
	ctx := &EvalCtx{x: x, st: st, old: st, env: map[string]SV{}, pkg: pkg, sf: sf}
	var binders []string
	for _, v := range l.Vars {
		sort, typ := x.ghostSort(v.Type, pkg, sf)
		var t T
		if bind {
			t = T{quoteSym("a " + v.Name), sort}
			binders = append(binders, fmt.Sprintf("(%s %s)", t.S, sort))
		} else {
			t = declConst("lv "+l.Name+" "+v.Name, sort)
		}
		ctx.env[v.Name] = SV{t: t, typ: typ}
	}
	x.lastAxiomPattern = ""
	if tc, ok := l.E.(*ECall); ok && tc.Fun == "trig" && len(tc.Args) >= 2 {
		var ps []string
		for _, a := range tc.Args[1:] {
			ps = append(ps, ctx.value(ctx.eval(a)).S)
		}
		x.lastAxiomPattern = strings.Join(ps, " ")
		return ctx.boolOf(tc.Args[0]), binders
	}
	return ctx.boolOf(l.E), binders
}

func (x *Exec) tableChecks(plan *Plan, only *regexp.Regexp) {
	for _, name := range plan.Tables {
		if only != nil && !only.MatchString(name) {
			continue
		}
		i := strings.LastIndexByte(name, '.')
		pkgPath := modulePath + "/" + name[:i]
		varName := name[i+1:]
		sf := x.specs[pkgPath]
		var pin *TablePin
		if sf != nil {
			for _, t := range sf.Tables {
				if t.Var == varName {
					pin = t
				}
			}
		}
		if pin == nil {
			x.lemmaErrs = append(x.lemmaErrs, "table pin "+name+" not found")
			continue
		}
		func() {
			defer func() {
				if r := recover(); r != nil {
					if se, ok := r.(specErr); ok {
						x.lemmaErrs = append(x.lemmaErrs, fmt.Sprintf("table %s: %s", name, se.msg))
						return
					}
					panic(r)
				}
			}()
			st := x.baseState()
			pkg := x.typesPkg(pkgPath)
			ctx := &EvalCtx{x: x, st: st, old: st, env: map[string]SV{}, pkg: pkg, sf: sf}
			g := ctx.boolOf(pin.E)
			x.checks = append(x.checks, &Check{Name: name[:i] + "/table/" + varName, Goal: g, At: st.ev, Fn: "table " + name, Detail: pin.Text, Where: fmt.Sprintf("%s:%d", sf.Path, pin.Line)})
			// immutability of the variable (whole-module scan)
			imm := false
			if sp := x.ssaPkgs[pkgPath]; sp != nil {
				if gv, ok := sp.Members[varName].(*ssa.Global); ok {
					imm = x.immutable[gv]
				}
			}
			x.checks = append(x.checks, &Check{Name: name[:i] + "/immutable/" + varName, Goal: mkBool(imm), At: nil, Fn: "table " + name, Detail: "no store to " + varName + " (or through it) outside package initialisers"})
		}()
	}
}

func (x *Exec) extraChecks(plan *Plan, only *regexp.Regexp) {
	x.tableChecks(plan, only)
	if only == nil {
		x.immutableFieldChecks()
		x.objInvChecks()
	}
	for _, name := range plan.Lemmas {
		if only != nil && !only.MatchString(name) {
			continue
		}
		found := false
		all := append([]*SpecFile{}, x.extSpecs...)
		for _, k := range sortedKeys(x.specs) {
			all = append(all, x.specs[k])
		}
		for _, sf := range all {
			for _, l := range sf.Lemmas {
				if l.Axiom || l.Name != name {
					continue
				}
				found = true
				func() {
					defer func() {
						if r := recover(); r != nil {
							if se, ok := r.(specErr); ok {
								x.lemmaErrs = append(x.lemmaErrs, fmt.Sprintf("lemma %s: %s", name, se.msg))
								return
							}
							panic(r)
						}
					}()
					body, _ := x.closedFormula(sf, l, false)
					x.checks = append(x.checks, &Check{Name: "lemma/" + name, Goal: body, At: nil, Fn: "lemma " + name, Detail: l.Text, Where: sf.Path})
				}()
			}
		}
		if !found {
			x.lemmaErrs = append(x.lemmaErrs, "lemma "+name+" not found")
		}
	}
}

// ---------------------------------------------------------------------------
// Call logs (ghost history): for callees whose contract carries `flag logged`
// the engine records, per call, the receiver/arguments and the results.
//   calls(F)        number of calls so far
//   arg(F, i, k)    k-th argument (0 = receiver for methods) of the i-th call
//   argc(F, i, k)   contents of the backing array of a slice argument at call time
//   ret(F, i, k)    k-th result of the i-th call
//   panicked(F, i)  the i-th call panicked (maypanic callees)

func logKey(c *Contract) string {
	t := c.Target
	pkgName := ""
	if c.Pkg != "" {
		pkgName = c.Pkg[strings.LastIndexByte(c.Pkg, '/')+1:]
	}
	if strings.HasPrefix(t, "(") {
		// (recv).Method -> Recv.Method
		j := strings.IndexByte(t, ')')
		recv := t[1:j]
		if k := strings.LastIndexAny(recv, "./"); k >= 0 {
			recv = recv[k+1:]
		}
		recv = strings.TrimPrefix(recv, "*")
		return recv + "." + t[j+2:]
	}
	if k := strings.LastIndexByte(t, '/'); k >= 0 {
		t = t[k+1:]
	}
	if !strings.Contains(t, ".") && pkgName != "" {
		t = pkgName + "." + t
	}
	return t
}

// logsMentioned lists the logged callees a contract's postconditions talk about;
// applying the contract advances those logs by an unknown number of calls.
func (x *Exec) logsMentioned(c *Contract) []string {
	seen := map[string]bool{}
	var out []string
	var walk func(e Expr)
	walk = func(e Expr) {
		switch v := e.(type) {
		case *ECall:
			switch v.Fun {
			case "calls", "arg", "argc", "ret", "retc", "panicked":
				if len(v.Args) > 0 {
					if n := exprName(v.Args[0]); n != "" {
						if lc := x.loggedContract(n); lc != nil {
							k := logKey(lc)
							if !seen[k] {
								seen[k] = true
								out = append(out, k)
							}
						}
					}
				}
			}
			for _, a := range v.Args {
				walk(a)
			}
		case *EUnary:
			walk(v.X)
		case *EBinary:
			walk(v.X)
			walk(v.Y)
		case *ECond:
			walk(v.C)
			walk(v.A)
			walk(v.B)
		case *EIndex:
			walk(v.X)
			walk(v.I)
		case *ESlice:
			walk(v.X)
			if v.Lo != nil {
				walk(v.Lo)
			}
			if v.Hi != nil {
				walk(v.Hi)
			}
		case *ESel:
			walk(v.X)
		case *EAssert:
			walk(v.X)
		case *ESet:
			for _, a := range v.Elems {
				walk(a)
			}
		}
	}
	for _, cl := range c.Ensures {
		walk(cl.E)
	}
	for _, l := range c.Lets {
		walk(l.E)
	}
	return out
}

// reachableLogs: the call logs a function with a body can append to, through its static callees, the closures it
// creates and the interface methods it invokes (by their interface contracts). A caller that applies the function's
// contract advances these logs even when the contract does not mention them: "this log did not change" is never
// assumed about a callee that can reach the logged function.
func (x *Exec) reachableLogs(f *ssa.Function) []string {
	if x.reachLogMemo == nil {
		x.reachLogMemo = map[*ssa.Function][]string{}
	}
	if r, ok := x.reachLogMemo[f]; ok {
		return r
	}
	set := map[string]bool{}
	seen := map[*ssa.Function]bool{}
	var visit func(g *ssa.Function)
	visit = func(g *ssa.Function) {
		if g == nil || seen[g] {
			return
		}
		seen[g] = true
		for _, b := range g.Blocks {
			for _, ins := range b.Instrs {
				if mc, ok := ins.(*ssa.MakeClosure); ok {
					if af, ok := mc.Fn.(*ssa.Function); ok {
						visit(af)
					}
				}
				ci, ok := ins.(ssa.CallInstruction)
				if !ok {
					continue
				}
				cc := ci.Common()
				if cc.IsInvoke() {
					if ic := x.ifaceContract(cc.Method); ic != nil && ic.Flags["logged"] {
						set[logKey(ic)] = true
					}
					continue
				}
				callee := cc.StaticCallee()
				if callee == nil {
					continue
				}
				if c := x.contractFor(callee); c != nil && c.Flags["logged"] {
					set[logKey(c)] = true
				}
				for _, vc := range x.variants[callee.String()] {
					if vc.Flags["logged"] {
						set[logKey(vc)] = true
					}
				}
				if len(callee.Blocks) > 0 && x.isInTree(callee) {
					visit(callee)
				}
			}
		}
	}
	visit(f)
	out := sortedKeys(set)
	x.reachLogMemo[f] = out
	return out
}

// callbackCapable: a value of this type can carry code or references to objects with methods, so a callee that
// receives it can call back into logged functions.
func callbackCapable(t types.Type) bool {
	switch u := t.Underlying().(type) {
	case *types.Basic:
		return false
	case *types.Slice:
		return callbackCapable(u.Elem())
	case *types.Array:
		return callbackCapable(u.Elem())
	}
	return true
}

// advanceAllLogs: after a call whose effects are unknown ("modifies all", no contract) and that was handed something
// it can call back through, every call log may have grown (its history is kept).
func (x *Exec) advanceAllLogs(st *State, args []Val, except string, who string) {
	capable := false
	for _, a := range args {
		if a.typ != nil && callbackCapable(a.typ) {
			capable = true
		}
	}
	if !capable {
		return
	}
	if os.Getenv("VERIF_DEBUG_LOGS") != "" {
		fmt.Fprintf(os.Stderr, "advance-all-logs in %v after %s\n", x.curFn, who)
	}
	seen := map[string]bool{}
	add := func(c *Contract) {
		if c.Flags["logged"] {
			seen[logKey(c)] = true
		}
	}
	for _, c := range x.contracts {
		add(c)
	}
	for _, vs := range x.variants {
		for _, c := range vs {
			add(c)
		}
	}
	for _, k := range sortedKeys(seen) {
		if k != except {
			x.advanceLog(st, k)
		}
	}
}

// advanceLog havocs a call log keeping its history (entries below the old count).
func (x *Exec) advanceLog(st *State, key string) {
	nName := "log." + key + ".n"
	n, ok := st.ghost[nName]
	if !ok {
		n = declConst("log0 "+key+".n", SInt)
		st.assume(app(SBool, ">=", n, mkInt(0)))
	}
	nn := fresh("logn", SInt)
	st.assume(app(SBool, ">=", nn, n))
	st.ghost[nName] = nn
	prefix := "log." + key + "."
	for _, g := range sortedKeys(st.ghost) {
		if !strings.HasPrefix(g, prefix) || g == nName {
			continue
		}
		cur := st.ghost[g]
		nv := fresh("log", cur.Sort)
		// a fact about two versions of the log: valid for the rest of the path, it survives loop cuts
		savedKeep := curKeep
		curKeep = true
		st.assume(T{fmt.Sprintf("(forall ((i Int)) (! (=> (< i %s) (= (select %s i) (select %s i))) :pattern ((select %s i))))", n.S, nv.S, cur.S, nv.S), SBool})
		curKeep = savedKeep
		st.ghost[g] = nv
	}
}

func (x *Exec) logCall(st *State, c *Contract, name string, args []Val, res []Val, panicked bool) {
	if !c.Flags["logged"] {
		return
	}
	key := logKey(c)
	nName := "log." + key + ".n"
	n, ok := st.ghost[nName]
	if !ok {
		n = declConst("log0 "+key+".n", SInt)
		st.assume(app(SBool, ">=", n, mkInt(0)))
	}
	upd := func(field string, sort string, v T) {
		gname := "log." + key + "." + field
		cur, ok := st.ghost[gname]
		if !ok {
			cur = declConst("log0 "+key+"."+field, arraySort(SInt, sort))
		}
		st.ghost[gname] = st.name("log", store(cur, n, v))
	}
	for i, a := range args {
		upd(fmt.Sprintf("arg%d", i), a.T.Sort, a.T)
		if a.typ != nil {
			if sl, ok := a.typ.Underlying().(*types.Slice); ok {
				content := sel(st.arrHeap(sl.Elem()), sliceArr(a.T))
				upd(fmt.Sprintf("argc%d", i), content.Sort, content)
			}
		}
	}
	for i, r := range res {
		upd(fmt.Sprintf("ret%d", i), r.T.Sort, r.T)
		if r.typ != nil {
			if sl, ok := r.typ.Underlying().(*types.Slice); ok {
				// contents of a returned slice at the time of the return (retc)
				content := sel(st.arrHeap(sl.Elem()), sliceArr(r.T))
				upd(fmt.Sprintf("retc%d", i), content.Sort, content)
			}
		}
	}
	upd("panicked", SBool, mkBool(panicked))
	st.ghost[nName] = st.name("logn", app(SInt, "+", n, mkInt(1)))
	if !ok {
		st.ghost["log0."+key] = n
	}
}

func (x *Exec) loggedContract(name string) *Contract {
	var found *Contract
	check := func(c *Contract) {
		if !c.Flags["logged"] {
			return
		}
		k := logKey(c)
		if k == name || strings.HasSuffix(k, "."+name) || strings.HasSuffix(k, "."+name[strings.LastIndexByte(name, '.')+1:]) && strings.HasPrefix(k, name[:strings.LastIndexByte(name, '.')+1]) {
			if found != nil && found != c && logKey(found) != k {
				sfail("ambiguous logged callee %q", name)
			}
			found = c
		}
	}
	for _, c := range x.contracts {
		check(c)
	}
	for _, vs := range x.variants {
		for _, c := range vs {
			check(c)
		}
	}
	return found
}

func (x *Exec) logExpr(c *EvalCtx, v *ECall) SV {
	if len(v.Args) < 1 {
		sfail("%s needs a callee", v.Fun)
	}
	name := exprName(v.Args[0])
	if name == "" {
		sfail("%s: callee must be a name", v.Fun)
	}
	lc := x.loggedContract(name)
	if lc == nil {
		sfail("%s: no contract with `flag logged` matches %q", v.Fun, name)
	}
	key := logKey(lc)
	ghostOr := func(field string, sort string) T {
		if g, ok := c.st.ghost["log."+key+"."+field]; ok {
			return g
		}
		if field == "n" {
			return declConst("log0 "+key+".n", SInt)
		}
		return declConst("log0 "+key+"."+field, arraySort(SInt, sort))
	}
	switch v.Fun {
	case "calls":
		return SV{t: ghostOr("n", SInt), typ: types.Typ[types.Int]}
	case "panicked":
		i := c.value(c.eval(v.Args[1]))
		return SV{t: sel(ghostOr("panicked", SBool), i), typ: types.Typ[types.Bool]}
	}
	if len(v.Args) < 2 {
		sfail("%s(F, i[, k])", v.Fun)
	}
	i := c.value(c.eval(v.Args[1]))
	k := 0
	if len(v.Args) > 2 {
		kc, ok := v.Args[2].(*EInt)
		if !ok {
			sfail("%s: the position must be a literal", v.Fun)
		}
		k = int(kc.V.Int64())
	}
	// types come from the callee's signature
	sig, recvT := x.contractSignature(lc)
	if sig == nil {
		sfail("%s: cannot find the signature of %s", v.Fun, lc.Target)
	}
	switch v.Fun {
	case "retc":
		if k >= sig.Results().Len() {
			sfail("retc: %s has %d results", lc.Target, sig.Results().Len())
		}
		sl, ok := sig.Results().At(k).Type().Underlying().(*types.Slice)
		if !ok {
			sfail("retc: result %d of %s is not a slice", k, lc.Target)
		}
		return SV{t: sel(ghostOr(fmt.Sprintf("retc%d", k), arraySort(SInt, sortOf(sl.Elem()))), i)}
	case "ret":
		if k >= sig.Results().Len() {
			sfail("ret: %s has %d results", lc.Target, sig.Results().Len())
		}
		rt := sig.Results().At(k).Type()
		return SV{t: sel(ghostOr(fmt.Sprintf("ret%d", k), sortOf(rt)), i), typ: rt}
	case "arg", "argc":
		var at types.Type
		idx := k
		if recvT != nil {
			if k == 0 {
				at = recvT
			} else {
				at = sig.Params().At(k - 1).Type()
			}
		} else {
			at = sig.Params().At(k).Type()
		}
		if v.Fun == "argc" {
			sl, ok := at.Underlying().(*types.Slice)
			if !ok {
				sfail("argc: argument %d of %s is not a slice", k, lc.Target)
			}
			cs := arraySort(SInt, sortOf(sl.Elem()))
			return SV{t: sel(ghostOr(fmt.Sprintf("argc%d", idx), cs), i)}
		}
		return SV{t: sel(ghostOr(fmt.Sprintf("arg%d", idx), sortOf(at)), i), typ: at}
	}
	sfail("unknown log function %s", v.Fun)
	return SV{}
}

// contractSignature finds the Go signature a contract is attached to.
func (x *Exec) contractSignature(c *Contract) (*types.Signature, types.Type) {
	key := ""
	for k, cc := range x.contracts {
		if cc == c {
			key = k
		}
	}
	for k, vs := range x.variants {
		for _, cc := range vs {
			if cc == c {
				key = k
			}
		}
	}
	if key == "" {
		return nil, nil
	}
	// interface method or concrete method: (pkg.T).M / (*pkg.T).M ; function: pkg.F
	if strings.HasPrefix(key, "(") {
		j := strings.IndexByte(key, ')')
		recv := key[1:j]
		meth := key[j+2:]
		ptr := strings.HasPrefix(recv, "*")
		recv = strings.TrimPrefix(recv, "*")
		k := strings.LastIndexByte(recv, '.')
		if k < 0 {
			return nil, nil
		}
		pkg := x.typesPkg(recv[:k])
		if pkg == nil {
			return nil, nil
		}
		tn, ok := pkg.Scope().Lookup(recv[k+1:]).(*types.TypeName)
		if !ok {
			return nil, nil
		}
		var rt types.Type = tn.Type()
		if ptr {
			rt = types.NewPointer(rt)
		}
		obj, _, _ := types.LookupFieldOrMethod(rt, true, pkg, meth)
		f, ok := obj.(*types.Func)
		if !ok {
			return nil, nil
		}
		return f.Type().(*types.Signature), rt
	}
	k := strings.LastIndexByte(key, '.')
	if k < 0 {
		return nil, nil
	}
	pkg := x.typesPkg(key[:k])
	if pkg == nil {
		return nil, nil
	}
	name := key[k+1:]
	if f, ok := pkg.Scope().Lookup(name).(*types.Func); ok {
		return f.Type().(*types.Signature), nil
	}
	if fn := x.funcByName(key[:k], name); fn != nil {
		return fn.Signature, nil
	}
	return nil, nil
}

func (x *Exec) lockExpr(c *EvalCtx, v *ECall) SV { sfail("lock state not implemented"); return SV{} }

var _ ssa.Value

// Immutable fields (declared `immutable T.f` in a contract file): a whole-module
// scan shows that the field is only written while its object is being
// constructed (stores into a freshly allocated object of the same function);
// calls with unknown effects then keep the field's heap.
func (x *Exec) ensureImmutableHeaps() {
	if x.immutableHeaps != nil {
		return
	}
	x.immutableHeaps = map[string]bool{}
	x.immutableViolations = map[string]string{}
	type fld struct {
		st   types.Type
		path string
	}
	want := map[string]fld{}
	for key := range x.immutableFields {
		// key = pkgpath.T.f
		i := strings.LastIndexByte(key, '.')
		j := strings.LastIndexByte(key[:i], '.')
		pkg := x.typesPkg(key[:j])
		if pkg == nil {
			x.immutableViolations[key] = "unknown package"
			continue
		}
		tn, ok := pkg.Scope().Lookup(key[j+1 : i]).(*types.TypeName)
		if !ok || !isStruct(tn.Type()) {
			x.immutableViolations[key] = "unknown struct type"
			continue
		}
		want[key] = fld{tn.Type(), key[i+1:]}
	}
	// scan all in-tree functions
	var visit func(f *ssa.Function)
	seen := map[*ssa.Function]bool{}
	visit = func(f *ssa.Function) {
		if f == nil || seen[f] {
			return
		}
		seen[f] = true
		for _, b := range f.Blocks {
			for _, ins := range b.Instrs {
				st, ok := ins.(*ssa.Store)
				if !ok {
					continue
				}
				// walk the address to its root, collecting the field path
				var names []string
				addr := st.Addr
				var rootT types.Type
				var root ssa.Value
				for {
					fa, ok := addr.(*ssa.FieldAddr)
					if !ok {
						break
					}
					stt := deref(fa.X.Type())
					names = append([]string{stt.Underlying().(*types.Struct).Field(fa.Field).Name()}, names...)
					rootT = stt
					root = fa.X
					addr = fa.X
				}
				for key, w := range want {
					hit := false
					if rootT != nil && types.Identical(rootT, w.st) && len(names) > 0 && names[0] == w.path {
						hit = true
					}
					// whole-object store *p = T{...}
					if rootT == nil && types.Identical(deref(st.Addr.Type()), w.st) {
						hit = true
						root = st.Addr
					}
					if !hit {
						continue
					}
					if a, ok := root.(*ssa.Alloc); ok && a.Parent() == f {
						continue // initialisation of an object created here
					}
					x.immutableViolations[key] = "written in " + f.String() + " at " + x.pos(st.Pos())
				}
			}
		}
		for _, a := range f.AnonFuncs {
			visit(a)
		}
	}
	for _, p := range x.prog.AllPackages() {
		if !strings.HasPrefix(p.Pkg.Path(), modulePath) {
			continue
		}
		for _, m := range p.Members {
			switch v := m.(type) {
			case *ssa.Function:
				visit(v)
			case *ssa.Type:
				for _, t := range []types.Type{v.Type(), types.NewPointer(v.Type())} {
					ms := x.prog.MethodSets.MethodSet(t)
					for i := 0; i < ms.Len(); i++ {
						visit(x.prog.MethodValue(ms.At(i)))
					}
				}
			}
		}
	}
	for key, w := range want {
		if _, bad := x.immutableViolations[key]; bad {
			continue
		}
		for _, l := range structLeaves(w.st) {
			if l.names[0] == w.path {
				x.immutableHeaps[fieldHeapName(w.st, l.name())] = true
			}
		}
	}
}

func (x *Exec) immutableFieldChecks() {
	x.ensureImmutableHeaps()
	for _, key := range sortedKeys(x.immutableFields) {
		why, bad := x.immutableViolations[key]
		short := strings.TrimPrefix(key, modulePath+"/")
		x.checks = append(x.checks, &Check{Name: "immutable-field/" + short, Goal: mkBool(!bad), At: nil, Fn: "immutable " + short, Detail: "field is only written while its object is constructed; " + why})
	}
}

// ---------------------------------------------------------------------------
// Object invariants (objinv T(h) by Ctor over fields: expr)
//
// The invariant may be assumed for every *T the verified code receives because
//   (1) every T is allocated in Ctor only (whole-module scan: objinv/<T>/sole-constructor),
//   (2) Ctor establishes it on what it returns (an ensures obligation of Ctor),
//   (3) it reads only fields that are never written after construction (objinv/<T>/fields-immutable,
//       on top of the immutable-field/* scans).

func (oi *ObjInv) key() string { return oi.Pkg + "." + oi.Type }

func (x *Exec) objInvNamed(t types.Type) *ObjInv {
	n, ok := t.(*types.Named)
	if !ok || n.Obj().Pkg() == nil {
		return nil
	}
	return x.objInvs[n.Obj().Pkg().Path()+"."+n.Obj().Name()]
}

// objInvEntry assumes the invariant of every pointer parameter whose type has one
// (not in the constructor itself).
func (x *Exec) objInvEntry(st *State, f *ssa.Function, args []Val) {
	for i, p := range f.Params {
		pt, ok := p.Type().Underlying().(*types.Pointer)
		if !ok {
			continue
		}
		oi := x.objInvNamed(pt.Elem())
		if oi == nil || f.Pkg == nil || f.Pkg.Pkg.Path() != oi.Pkg {
			continue
		}
		if f.Name() == oi.Ctor {
			continue
		}
		ctx := &EvalCtx{x: x, st: st, old: st, env: map[string]SV{oi.Var: {t: args[i].T, typ: p.Type()}}, pkg: x.typesPkg(oi.Pkg), sf: oi.SF}
		g := ctx.boolOf(oi.E)
		st.assume(implies(not(eq(args[i].T, mkInt(0))), g))
	}
}

// objInvCtor adds "the invariant holds on the result" to the constructor's postconditions.
func (x *Exec) objInvCtor(f *ssa.Function, c *Contract) *Contract {
	if f.Pkg == nil {
		return c
	}
	for _, k := range sortedKeys(x.objInvs) {
		oi := x.objInvs[k]
		if oi.Pkg != f.Pkg.Pkg.Path() || oi.Ctor != f.Name() || oi.added {
			continue
		}
		rs := f.Signature.Results()
		for i := 0; i < rs.Len(); i++ {
			rn := fmt.Sprintf("result%d", i)
			if rs.Len() == 1 {
				rn = "result"
			}
			var guard, obj string
			switch u := rs.At(i).Type().Underlying().(type) {
			case *types.Pointer:
				if x.objInvNamed(u.Elem()) != oi {
					continue
				}
				guard, obj = rn+" != nil", rn
			case *types.Interface:
				tn, _ := f.Pkg.Pkg.Scope().Lookup(oi.Type).(*types.TypeName)
				if tn == nil || !types.Implements(types.NewPointer(tn.Type()), u) {
					continue
				}
				guard = fmt.Sprintf("typeof(%s) == *%s && pl(%s) != 0", rn, oi.Type, rn)
				obj = fmt.Sprintf("(%s.(*%s))", rn, oi.Type)
			default:
				continue
			}
			body := regexp.MustCompile(`\b`+regexp.QuoteMeta(oi.Var)+`\b`).ReplaceAllString(oi.Text, obj)
			text := fmt.Sprintf("(%s) ==> (%s)", guard, body)
			e, err := parseExpr(text)
			if err != nil {
				panic(specErr{fmt.Sprintf("objinv %s: %v", oi.Type, err)})
			}
			nc := *c
			nc.Ensures = append(append([]Clause{}, c.Ensures...), Clause{E: e, Text: text, Name: "objinv-" + oi.Type + "-established", Line: oi.Line})
			c = &nc
			x.contracts[f.String()] = c
			oi.added = true
		}
	}
	return c
}

func (x *Exec) objInvChecks() {
	x.ensureImmutableHeaps()
	for _, k := range sortedKeys(x.objInvs) {
		oi := x.objInvs[k]
		short := strings.TrimPrefix(k, modulePath+"/")
		// (3) fields
		okFields := true
		why := ""
		declared := map[string]bool{}
		for _, f := range oi.Fields {
			key := oi.Pkg + "." + f
			declared[f[strings.LastIndexByte(f, '.')+1:]] = true
			if !x.immutableFields[key] {
				okFields, why = false, f+" is not declared immutable"
			} else if w, bad := x.immutableViolations[key]; bad {
				okFields, why = false, f+": "+w
			}
		}
		for _, name := range selectorNames(oi.E) {
			if !declared[name] {
				okFields, why = false, "the invariant reads field "+name+" which is not listed after 'over'"
			}
		}
		x.checks = append(x.checks, &Check{Name: "objinv/" + short + "/fields-immutable", Goal: mkBool(okFields), Fn: "objinv " + short, Detail: "the invariant reads only fields never written after construction; " + why})
		// (1) sole constructor
		sole, where := x.soleConstructor(oi)
		x.checks = append(x.checks, &Check{Name: "objinv/" + short + "/sole-constructor", Goal: mkBool(sole), Fn: "objinv " + short, Detail: "every " + oi.Type + " is allocated in " + oi.Ctor + " only; " + where})
	}
}

func selectorNames(e Expr) []string {
	var out []string
	var walk func(e Expr)
	walk = func(e Expr) {
		switch v := e.(type) {
		case *ESel:
			out = append(out, v.Name)
			walk(v.X)
		case *EUnary:
			walk(v.X)
		case *EBinary:
			walk(v.X)
			walk(v.Y)
		case *ECall:
			for _, a := range v.Args {
				walk(a)
			}
		case *EIndex:
			walk(v.X)
			walk(v.I)
		case *ESlice:
			walk(v.X)
			walk(v.Lo)
			walk(v.Hi)
		case *EAssert:
			walk(v.X)
		case *ECond:
			walk(v.C)
			walk(v.A)
			walk(v.B)
		case *ESet:
			for _, a := range v.Elems {
				walk(a)
			}
		}
	}
	walk(e)
	return out
}

// soleConstructor: no function other than the constructor allocates a value that is or contains (by value) the type.
func (x *Exec) soleConstructor(oi *ObjInv) (bool, string) {
	pkg := x.typesPkg(oi.Pkg)
	if pkg == nil {
		return false, "unknown package"
	}
	tn, ok := pkg.Scope().Lookup(oi.Type).(*types.TypeName)
	if !ok {
		return false, "unknown type"
	}
	target := tn.Type()
	var contains func(t types.Type, depth int) bool
	contains = func(t types.Type, depth int) bool {
		if depth > 6 {
			return false
		}
		if types.Identical(t, target) {
			return true
		}
		switch u := t.Underlying().(type) {
		case *types.Struct:
			for i := 0; i < u.NumFields(); i++ {
				if contains(u.Field(i).Type(), depth+1) {
					return true
				}
			}
		case *types.Array:
			return contains(u.Elem(), depth+1)
		}
		return false
	}
	ok2, where := true, ""
	seen := map[*ssa.Function]bool{}
	var visit func(f *ssa.Function)
	visit = func(f *ssa.Function) {
		if f == nil || seen[f] {
			return
		}
		seen[f] = true
		isCtor := f.Pkg != nil && f.Pkg.Pkg.Path() == oi.Pkg && f.Name() == oi.Ctor
		for _, b := range f.Blocks {
			for _, ins := range b.Instrs {
				var t types.Type
				switch v := ins.(type) {
				case *ssa.Alloc:
					t = deref(v.Type())
				case *ssa.MakeSlice:
					t = v.Type().Underlying().(*types.Slice).Elem()
				case *ssa.MakeMap:
					t = v.Type().Underlying().(*types.Map).Elem()
				case *ssa.MakeChan:
					t = v.Type().Underlying().(*types.Chan).Elem()
				}
				if t != nil && contains(t, 0) && !isCtor {
					ok2, where = false, "allocated in "+f.String()+" at "+x.pos(ins.Pos())
				}
			}
		}
		for _, a := range f.AnonFuncs {
			visit(a)
		}
	}
	for _, p := range x.prog.AllPackages() {
		if !strings.HasPrefix(p.Pkg.Path(), modulePath) {
			continue
		}
		for _, m := range p.Members {
			switch v := m.(type) {
			case *ssa.Function:
				visit(v)
			case *ssa.Type:
				for _, t := range []types.Type{v.Type(), types.NewPointer(v.Type())} {
					ms := x.prog.MethodSets.MethodSet(t)
					for i := 0; i < ms.Len(); i++ {
						visit(x.prog.MethodValue(ms.At(i)))
					}
				}
			}
		}
	}
	return ok2, where
}

// directVarSymbols lists the ghost symbols applied directly to a bound variable ("|a name|") in text.
func directVarSymbols(text string) []string {
	seen := map[string]bool{}
	var walk func(n *sexp)
	walk = func(n *sexp) {
		if n == nil || !n.isL {
			return
		}
		if len(n.list) > 1 && !n.list[0].isL && (strings.HasPrefix(n.list[0].atom, "|ghost ") || strings.HasPrefix(n.list[0].atom, "|G ")) {
			for _, a := range n.list[1:] {
				if !a.isL && strings.HasPrefix(a.atom, "|a ") {
					seen[n.list[0].atom] = true
				}
			}
		}
		for _, c := range n.list {
			walk(c)
		}
	}
	for _, n := range parseSexps(text) {
		walk(n)
	}
	return sortedKeys(seen)
}
