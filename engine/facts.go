package main

import (
	"sort"
	"strings"
)

// Init facts: after the package initialisers have been executed, the contents
// of the objects they allocated (which all have literal references) are turned
// from store chains into per-object facts `H[r] = v` about the base heap
// constants. A fact is added to a query only when the literal r occurs in it.

var initFacts = map[string][]string{}

func isIntLit(s string) bool {
	if s == "" {
		return false
	}
	for i := 0; i < len(s); i++ {
		if s[i] < '0' || s[i] > '9' {
			return false
		}
	}
	return true
}

type factBuilder struct {
	defs map[string]*sexp
	memo map[*sexp]*sexp
}

func (fb *factBuilder) resolve(n *sexp) *sexp {
	for !n.isL {
		d, ok := fb.defs[n.atom]
		if !ok {
			return n
		}
		n = d
	}
	return n
}

func isOp(n *sexp, op string, arity int) bool {
	return n.isL && len(n.list) == arity+1 && !n.list[0].isL && n.list[0].atom == op
}

// simplify rewrites select-over-store at literal indices. It returns n itself
// when nothing changes.
func (fb *factBuilder) simplify(n *sexp) *sexp {
	if !n.isL {
		return n
	}
	if r, ok := fb.memo[n]; ok {
		return r
	}
	res := fb.simplify1(n)
	fb.memo[n] = res
	return res
}

func (fb *factBuilder) simplify1(n *sexp) *sexp {
	if isOp(n, "select", 2) {
		r := fb.simplify(n.list[2])
		cur := n.list[1]
		for steps := 0; steps < 100000; steps++ {
			rx := fb.resolve(cur)
			if !rx.isL {
				break
			}
			if isOp(rx, "store", 3) {
				i := fb.simplify(rx.list[2])
				if !i.isL && !r.isL {
					if i.atom == r.atom {
						return fb.simplify(rx.list[3])
					}
					if isIntLit(i.atom) && isIntLit(r.atom) || strings.HasPrefix(i.atom, "\"") && strings.HasPrefix(r.atom, "\"") {
						cur = rx.list[1]
						continue
					}
				}
				break
			}
			if isOp(rx, "select", 2) {
				s := fb.simplify(rx)
				if s != rx {
					cur = s
					continue
				}
			}
			break
		}
		if cur == n.list[1] && r == n.list[2] {
			return n
		}
		return &sexp{isL: true, list: []*sexp{n.list[0], cur, r}}
	}
	var out *sexp
	for i, c := range n.list {
		sc := fb.simplify(c)
		if sc != c && out == nil {
			out = &sexp{isL: true, list: append([]*sexp{}, n.list...)}
		}
		if out != nil {
			out.list[i] = sc
		}
	}
	if out == nil {
		return n
	}
	return out
}

// chain walks a store chain; ok=false when the heap is not a pure chain of
// stores at literal references over its base constant.
func (fb *factBuilder) chain(n *sexp, base string) (refs []string, ok bool) {
	seen := map[string]bool{}
	for {
		n = fb.resolve(n)
		if !n.isL {
			return refs, n.atom == base
		}
		if len(n.list) == 4 && !n.list[0].isL && n.list[0].atom == "store" {
			i := fb.simplify(n.list[2])
			if i.isL || !isIntLit(i.atom) {
				return nil, false
			}
			if !seen[i.atom] {
				seen[i.atom] = true
				refs = append(refs, i.atom)
			}
			n = n.list[1]
			continue
		}
		return nil, false
	}
}

// convertInitHeaps replaces init-time store chains by facts.
func convertInitHeaps(st *State) {
	fb := &factBuilder{defs: map[string]*sexp{}, memo: map[*sexp]*sexp{}}
	for e := st.ev; e != nil; e = e.prev {
		if e.Def == "" {
			continue
		}
		ps := parseSexps(e.Text)
		if len(ps) == 1 && ps[0].isL && len(ps[0].list) == 3 {
			fb.defs[e.Def] = ps[0].list[2]
		}
	}
	names := make([]string, 0, len(st.heaps))
	for n := range st.heaps {
		names = append(names, n)
	}
	sort.Strings(names)
	for _, name := range names {
		h := st.heaps[name]
		base := quoteSym(name)
		ps := parseSexps(h.S)
		if len(ps) != 1 {
			continue
		}
		refs, ok := fb.chain(ps[0], base)
		if !ok {
			continue
		}
		for _, r := range refs {
			v := fb.simplify(&sexp{isL: true, list: []*sexp{{atom: "select"}, ps[0], {atom: r}}})
			initFacts[r] = append(initFacts[r], "(= (select "+base+" "+r+") "+v.String()+")")
		}
		delete(st.heaps, name)
	}
}
