package main

import (
	"fmt"
	"go/types"
	"math/big"
	"strings"
)

const repoPrefix = "github.com/theparanoids/ysshra/"

func qualifier(p *types.Package) string {
	if p == nil {
		return ""
	}
	path := p.Path()
	if strings.HasPrefix(path, repoPrefix) {
		return "~" + path[len(repoPrefix):]
	}
	return path
}

func typeStr(t types.Type) string {
	return types.TypeString(t, qualifier)
}

// sortOf maps a Go type to its SMT sort, registering datatypes as needed.
func sortOf(t types.Type) string {
	switch u := t.Underlying().(type) {
	case *types.Basic:
		switch {
		case u.Info()&types.IsBoolean != 0:
			return SBool
		case u.Info()&types.IsInteger != 0:
			return SInt
		case u.Info()&types.IsString != 0:
			return SString
		case u.Info()&types.IsFloat != 0:
			return SFloat
		case u.Kind() == types.UnsafePointer:
			return SInt
		case u.Kind() == types.UntypedNil:
			return SInt
		}
		return SInt
	case *types.Pointer, *types.Map, *types.Chan, *types.Signature:
		return SInt
	case *types.Slice:
		return SSlice
	case *types.Interface:
		return SIface
	case *types.Array:
		return arraySort(SInt, sortOf(u.Elem()))
	case *types.Struct:
		return structSort(t)
	case *types.Tuple:
		return "TUPLE"
	case *types.TypeParam:
		return SIface
	}
	panic(fmt.Sprintf("sortOf: unsupported type %s (%T)", t, t.Underlying()))
}

var structSortNames = map[string]string{}

func structKey(t types.Type) string {
	if n, ok := t.(*types.Named); ok {
		return typeStr(n)
	}
	if a, ok := t.(*types.Alias); ok {
		return structKey(types.Unalias(a))
	}
	return typeStr(t.Underlying())
}

func structSort(t types.Type) string {
	key := structKey(t)
	if s, ok := structSortNames[key]; ok {
		return s
	}
	st := t.Underlying().(*types.Struct)
	name := quoteSym("S " + key)
	structSortNames[key] = name
	var fields []string
	for i := 0; i < st.NumFields(); i++ {
		f := st.Field(i)
		fields = append(fields, fmt.Sprintf("(%s %s)", structAccessor(key, f.Name(), i), sortOf(f.Type())))
	}
	ctor := quoteSym("mk " + key)
	if len(fields) == 0 {
		registerSortDecl(key, fmt.Sprintf("(declare-datatypes ((%s 0)) (((%s))))", name, ctor))
	} else {
		registerSortDecl(key, fmt.Sprintf("(declare-datatypes ((%s 0)) (((%s %s))))", name, ctor, strings.Join(fields, " ")))
	}
	return name
}

func structAccessor(key, field string, i int) string {
	if field == "_" {
		field = fmt.Sprintf("_%d", i)
	}
	return quoteSym("f " + key + "." + field)
}

func structCtor(t types.Type) string {
	structSort(t)
	return quoteSym("mk " + structKey(t))
}

// structField projects field i out of a struct value.
func structField(t types.Type, v T, i int) T {
	st := t.Underlying().(*types.Struct)
	f := st.Field(i)
	return app(sortOf(f.Type()), structAccessor(structKey(t), f.Name(), i), v)
}

// structUpdate returns v with field i replaced.
func structUpdate(t types.Type, v T, i int, nv T) T {
	st := t.Underlying().(*types.Struct)
	args := make([]T, st.NumFields())
	for j := 0; j < st.NumFields(); j++ {
		if j == i {
			args[j] = nv
		} else {
			args[j] = structField(t, v, j)
		}
	}
	return structMake(t, args)
}

func structMake(t types.Type, args []T) T {
	if len(args) == 0 {
		return T{structCtor(t), structSort(t)}
	}
	return app(structSort(t), structCtor(t), args...)
}

// leaf of a struct type when it lives in the heap: a path of field indices
// ending at a non-struct field.
type leaf struct {
	path  []int
	names []string
	typ   types.Type
}

func (l leaf) name() string { return strings.Join(l.names, ".") }

func structLeaves(t types.Type) []leaf {
	var out []leaf
	var walk func(t types.Type, path []int, names []string)
	walk = func(t types.Type, path []int, names []string) {
		st := t.Underlying().(*types.Struct)
		for i := 0; i < st.NumFields(); i++ {
			f := st.Field(i)
			p := append(append([]int{}, path...), i)
			fname := f.Name()
			if fname == "_" {
				fname = fmt.Sprintf("_%d", i)
			}
			n := append(append([]string{}, names...), fname)
			if _, ok := f.Type().Underlying().(*types.Struct); ok {
				walk(f.Type(), p, n)
			} else {
				out = append(out, leaf{p, n, f.Type()})
			}
		}
	}
	walk(t, nil, nil)
	return out
}

func fieldHeapName(st types.Type, leafName string) string {
	return "Hf " + structKey(st) + "." + leafName
}

func cellHeapName(t types.Type) string { return "Hc " + typeStr(t) }
func arrHeapName(elem types.Type) string {
	return "Ha " + typeStr(elem)
}
func mapDomName(m types.Type) string { return "Md " + typeStr(m.Underlying()) }
func mapValName(m types.Type) string { return "Mv " + typeStr(m.Underlying()) }

// zero value of a Go type.
func zeroOf(t types.Type) T {
	switch u := t.Underlying().(type) {
	case *types.Basic:
		switch {
		case u.Info()&types.IsBoolean != 0:
			return mkBool(false)
		case u.Info()&types.IsString != 0:
			return smtString("")
		case u.Info()&types.IsFloat != 0:
			return T{"(xf-fin 0.0)", SFloat}
		}
		return mkInt(0)
	case *types.Pointer, *types.Map, *types.Chan, *types.Signature:
		return mkInt(0)
	case *types.Slice:
		return nilSlice()
	case *types.Interface, *types.TypeParam:
		return nilIface()
	case *types.Array:
		s := sortOf(t)
		return T{fmt.Sprintf("((as const %s) %s)", s, zeroOf(u.Elem()).S), s}
	case *types.Struct:
		args := make([]T, u.NumFields())
		for i := range args {
			args[i] = zeroOf(u.Field(i).Type())
		}
		return structMake(t, args)
	}
	panic("zeroOf: " + t.String())
}

func nilSlice() T { return T{"(mk-slice 0 0 0 0)", SSlice} }
func nilIface() T { return T{"(mk-iface 0 0)", SIface} }

// splitArgs splits "(op a b c)" into its top-level arguments.
func splitArgs(s string) []string {
	if len(s) < 2 || s[0] != '(' {
		return nil
	}
	body := s[1 : len(s)-1]
	var out []string
	i := 0
	for i < len(body) {
		for i < len(body) && body[i] == ' ' {
			i++
		}
		if i >= len(body) {
			break
		}
		j := i
		switch body[i] {
		case '(':
			d := 0
			for j < len(body) {
				c := body[j]
				if c == '|' {
					j++
					for j < len(body) && body[j] != '|' {
						j++
					}
				} else if c == '"' {
					j++
					for j < len(body) && body[j] != '"' {
						j++
					}
				} else if c == '(' {
					d++
				} else if c == ')' {
					d--
					if d == 0 {
						j++
						break
					}
				}
				j++
			}
		case '|':
			j++
			for j < len(body) && body[j] != '|' {
				j++
			}
			j++
		case '"':
			j++
			for j < len(body) {
				if body[j] == '"' {
					if j+1 < len(body) && body[j+1] == '"' {
						j += 2
						continue
					}
					break
				}
				j++
			}
			j++
		default:
			for j < len(body) && body[j] != ' ' {
				j++
			}
		}
		out = append(out, body[i:j])
		i = j
	}
	return out
}

func ctorArg(s T, ctor string, i int, sort string, acc string) T {
	if strings.HasPrefix(s.S, "("+ctor+" ") {
		a := splitArgs(s.S)
		if len(a) > i+1 {
			return T{a[i+1], sort}
		}
	}
	return app(sort, acc, s)
}

func sliceArr(s T) T { return ctorArg(s, "mk-slice", 0, SInt, "s-arr") }
func sliceOff(s T) T { return ctorArg(s, "mk-slice", 1, SInt, "s-off") }
func sliceLen(s T) T { return ctorArg(s, "mk-slice", 2, SInt, "s-len") }
func sliceCap(s T) T { return ctorArg(s, "mk-slice", 3, SInt, "s-cap") }
func mkSlice(arr, off, ln, cp T) T {
	return app(SSlice, "mk-slice", arr, off, ln, cp)
}
func ifaceTag(i T) T { return ctorArg(i, "mk-iface", 0, SInt, "i-tag") }
func ifacePl(i T) T  { return ctorArg(i, "mk-iface", 1, SInt, "i-pl") }
func mkIface(tag, pl T) T {
	return app(SIface, "mk-iface", tag, pl)
}

// integer ranges
func intRange(t types.Type) (lo, hi *big.Int, ok bool) {
	b, isB := t.Underlying().(*types.Basic)
	if !isB || b.Info()&types.IsInteger == 0 {
		return nil, nil, false
	}
	bits := 64
	signed := true
	switch b.Kind() {
	case types.Int8:
		bits = 8
	case types.Int16:
		bits = 16
	case types.Int32:
		bits = 32
	case types.Int64, types.Int:
		bits = 64
	case types.Uint8:
		bits, signed = 8, false
	case types.Uint16:
		bits, signed = 16, false
	case types.Uint32:
		bits, signed = 32, false
	case types.Uint64, types.Uint, types.Uintptr:
		bits, signed = 64, false
	case types.UntypedInt, types.UntypedRune:
		return nil, nil, false
	}
	one := big.NewInt(1)
	if signed {
		hi = new(big.Int).Sub(new(big.Int).Lsh(one, uint(bits-1)), one)
		lo = new(big.Int).Neg(new(big.Int).Lsh(one, uint(bits-1)))
	} else {
		lo = big.NewInt(0)
		hi = new(big.Int).Sub(new(big.Int).Lsh(one, uint(bits)), one)
	}
	return lo, hi, true
}

func intBits(t types.Type) (bits int, signed bool) {
	lo, hi, ok := intRange(t)
	if !ok {
		return 64, true
	}
	signed = lo.Sign() < 0
	bits = hi.BitLen()
	if signed {
		bits++
	}
	return
}

// wrapInt wraps a mathematical integer into the range of Go type t.
func wrapInt(t types.Type, v T) T {
	lo, hi, ok := intRange(t)
	if !ok {
		return v
	}
	mod := new(big.Int).Add(new(big.Int).Sub(hi, lo), big.NewInt(1))
	if lo.Sign() == 0 {
		return app(SInt, "mod", v, mkBig(mod))
	}
	half := new(big.Int).Neg(lo)
	return app(SInt, "-", app(SInt, "mod", app(SInt, "+", v, mkBig(half)), mkBig(mod)), mkBig(half))
}

// typingFact returns the type invariant of value v of Go type t (ranges of
// integers, slice header sanity), or "true".
func typingFact(t types.Type, v T) T {
	switch u := t.Underlying().(type) {
	case *types.Basic:
		if lo, hi, ok := intRange(t); ok {
			return and(app(SBool, "<=", mkBig(lo), v), app(SBool, "<=", v, mkBig(hi)))
		}
		if u.Info()&types.IsString != 0 {
			return mkBool(true)
		}
	case *types.Slice:
		return and(
			app(SBool, "<=", mkInt(0), sliceOff(v)),
			app(SBool, "<=", mkInt(0), sliceLen(v)),
			app(SBool, "<=", sliceLen(v), sliceCap(v)),
			app(SBool, "<=", sliceCap(v), T{"140737488355328", SInt}),
			app(SBool, "<=", mkInt(0), sliceArr(v)),
			implies(eq(sliceArr(v), mkInt(0)), eq(sliceCap(v), mkInt(0))),
		)
	case *types.Pointer, *types.Map, *types.Signature, *types.Chan:
		return app(SBool, "<=", mkInt(0), v)
	case *types.Interface:
		return and(app(SBool, "<=", mkInt(0), ifaceTag(v)),
			implies(eq(ifaceTag(v), mkInt(0)), eq(ifacePl(v), mkInt(0))))
	case *types.Struct:
		var fs []T
		for i := 0; i < u.NumFields(); i++ {
			fs = append(fs, typingFact(u.Field(i).Type(), structField(t, v, i)))
		}
		return and(fs...)
	}
	return mkBool(true)
}

func isPointerLike(t types.Type) bool {
	switch t.Underlying().(type) {
	case *types.Pointer, *types.Map, *types.Signature, *types.Chan:
		return true
	}
	return false
}

func isStruct(t types.Type) bool {
	_, ok := t.Underlying().(*types.Struct)
	return ok
}

func deref(t types.Type) types.Type {
	if p, ok := t.Underlying().(*types.Pointer); ok {
		return p.Elem()
	}
	return t
}
