package main

import (
	"strconv"
	"os"
	"sort"
	"fmt"
	"go/token"
	"go/types"
	"strings"

	"golang.org/x/tools/go/ssa"
)

// contractKey canonicalises a contract target written in package pkg.
func contractKey(target, pkg string) string {
	t := strings.TrimSpace(target)
	if strings.HasPrefix(t, "(") {
		i := strings.IndexByte(t, ')')
		recv := t[1:i]
		rest := t[i+1:]
		star := ""
		if strings.HasPrefix(recv, "*") {
			star = "*"
			recv = recv[1:]
		}
		if !strings.ContainsAny(recv, "./") && pkg != "" {
			recv = pkg + "." + recv
		}
		return "(" + star + recv + ")" + rest
	}
	if !strings.ContainsAny(t, "./") && pkg != "" {
		return pkg + "." + t
	}
	// pkgname.Func with a short package name is resolved later
	return t
}

func (x *Exec) contractFor(f *ssa.Function) *Contract {
	if f == nil {
		return nil
	}
	if c, ok := x.contracts[f.String()]; ok {
		return c
	}
	// generic instantiations: try origin
	if o := f.Origin(); o != nil && o != f {
		if c, ok := x.contracts[o.String()]; ok {
			return c
		}
	}
	return nil
}

func (x *Exec) ifaceContract(m *types.Func) *Contract {
	if c, ok := x.contracts[m.FullName()]; ok {
		return c
	}
	return nil
}

// interiorStructAddr: the address of a (nested) struct part of a heap object, reached through fields only.
func interiorStructAddr(a *Addr) bool {
	if a == nil || a.kind != aStruct || len(a.path) == 0 || !isStruct(a.typ) {
		return false
	}
	for _, s := range a.path {
		if s.isIndex {
			return false
		}
	}
	return true
}

// doCall executes a call instruction. It returns true when the continuation
// k has been (or will never be) invoked by doCall itself.
func (x *Exec) doCall(st *State, fr *Frame, instr ssa.Instruction, c *ssa.CallCommon, k func(*State, Val)) bool {
	pos := instr.Pos()
	// builtins
	if b, ok := c.Value.(*ssa.Builtin); ok {
		res := x.builtin(st, fr, b, c, instr)
		k(st, res)
		return true
	}
	var args []Val
	var sig *types.Signature
	var callee *ssa.Function
	var contract *Contract
	var calleeName string
	var fnv *FnVal
	if c.IsInvoke() {
		recv := x.val(st, c.Value)
		rt := x.materialize(st, recv)
		x.require(st, fr, "nopanic/nil", not(eq(ifaceTag(rt), mkInt(0))), pos, "method call on nil interface: "+c.Method.Name())
		args = append(args, Val{T: rt, typ: c.Value.Type()})
		sig = c.Method.Type().(*types.Signature)
		contract = x.ifaceContract(c.Method)
		calleeName = c.Method.FullName()
		// devirtualization: the interface value was made in this very path from a value of an in-tree
		// type whose method has a body; the concrete method (its contract, or its body when it is
		// declared inline) is what runs
		if recv.boxed == nil {
			if b, ok := st.boxes[readOverWrite(rt.S)]; ok {
				recv.boxed = b
			} else if os.Getenv("VERIF_DEBUG_BOX") != "" {
				fmt.Fprintf(os.Stderr, "box miss %s: %s\n", c.Method.Name(), rt.S)
			}
		}
		if recv.boxed != nil && contract == nil {
			if m := x.prog.LookupMethod(recv.boxed.typ, c.Method.Pkg(), c.Method.Name()); m != nil && len(m.Blocks) > 0 && x.isInTree(m) {
				callee = m
				contract = x.contractFor(m)
				calleeName = m.String()
				args[0] = *recv.boxed
				sig = m.Signature
				if recv.boxed.fn != nil {
					fnv = nil
				}
			}
		}
	} else {
		callee = c.StaticCallee()
		if callee == nil {
			fv := x.val(st, c.Value)
			if fv.fn != nil {
				fnv = fv.fn
				callee = fv.fn.fn
			} else if f2, ok := st.closures[x.materialize(st, fv).S]; ok {
				fnv = f2
				callee = f2.fn
			}
		} else if mc, ok := c.Value.(*ssa.MakeClosure); ok {
			if fv := x.val(st, mc); fv.fn != nil {
				fnv = fv.fn
			}
		}
		sig = c.Signature()
		if callee != nil {
			contract = x.contractFor(callee)
			calleeName = callee.String()
		} else {
			calleeName = "dynamic call " + c.Value.Name()
		}
	}
	if callee != nil && callee.Synthetic == "package initializer" {
		if x.isInTree(callee) && len(callee.Blocks) > 0 {
			x.inlineCall(st, fr, callee, nil, nil, pos, k)
			return true
		}
		k(st, Val{})
		return true
	}
	for _, a := range c.Args {
		av := x.val(st, a)
		arg := Val{T: x.materialize(st, av), typ: a.Type(), fn: av.fn, boxed: av.boxed}
		if interiorStructAddr(av.addr) {
			// a pointer to a part of a heap object keeps its location: an inlined callee and the modifies clause of a
			// contract reach the containing object's fields, not the abstract token
			arg.addr = av.addr
		}
		args = append(args, arg)
	}
	if callee == nil && !c.IsInvoke() {
		fvT := x.term(st, c.Value)
		x.require(st, fr, "nopanic/nilfunc", not(eq(fvT, mkInt(0))), pos, "call of nil function value")
		// pure callback declared by the enclosing contract?
		if top := topFrame(fr); top.contract != nil && top.contract.Flags["purecallbacks"] {
			res := x.pureCallback(st, fvT, sig, args)
			k(st, res)
			return true
		}
		// case split over the function values known to the run
		var others []T
		for _, cand := range x.candidates(st, sig) {
			s2 := st.clone()
			s2.assume(eq(fvT, cand.id))
			others = append(others, not(eq(fvT, cand.id)))
			x.callStatic(s2, fr, cand.fn, cand.fnv, sig, args, pos, k)
		}
		st.assume(and(others...))
	}
	x.dispatch(st, fr, callee, contract, calleeName, fnv, sig, args, pos, k)
	return true
}

type funcCand struct {
	id  T
	fn  *ssa.Function
	fnv *FnVal
}

// candidates lists the function values with signature sig that this run has
// seen being created (package-level functions used as values, closures).
func (x *Exec) candidates(st *State, sig *types.Signature) []funcCand {
	var out []funcCand
	for _, name := range sortedKeys(x.funcVals) {
		f := x.funcVals[name]
		if types.Identical(f.Signature, sig) {
			out = append(out, funcCand{id: mkInt(int64(funcID(f))), fn: f})
		}
	}
	for _, ref := range sortedKeys(st.closures) {
		fv := st.closures[ref]
		if types.Identical(fv.fn.Signature, sig) && len(fv.bindings) > 0 {
			out = append(out, funcCand{id: T{ref, SInt}, fn: fv.fn, fnv: fv})
		}
	}
	return out
}

func (x *Exec) callStatic(st *State, fr *Frame, callee *ssa.Function, fnv *FnVal, sig *types.Signature, args []Val, pos token.Pos, k func(*State, Val)) {
	x.dispatch(st, fr, callee, x.contractFor(callee), callee.String(), fnv, sig, args, pos, k)
}

func (x *Exec) dispatch(st *State, fr *Frame, callee *ssa.Function, contract *Contract, calleeName string, fnv *FnVal, sig *types.Signature, args []Val, pos token.Pos, k func(*State, Val)) {
	// inline?
	if callee != nil && len(callee.Blocks) > 0 {
		inline := false
		if contract != nil && contract.Flags["inline"] {
			inline = true
		}
		if contract == nil && callee.Parent() != nil && x.isInTree(callee) {
			inline = true // closures without a contract are executed in place
		}
		if contract == nil && x.isInTree(callee) && x.autoInline(callee) {
			inline = true
		}
		if inline {
			x.inlineCall(st, fr, callee, fnv, args, pos, k)
			return
		}
	}
	if vs := x.variants[calleeName]; len(vs) > 0 {
		for _, vc := range vs {
			env := x.bindParams(vc, sig, callee, args)
			ctx := x.ctxFor(vc, st, st, env, callee)
			if g := x.evalClause(ctx, *vc.When, vc); g.S == "true" {
				contract = vc
				break
			}
		}
	}
	if contract == nil {
		if callee == nil {
			// a function value the run knows nothing about is arbitrary code: it is its own callback
			x.unknownCode = true
		}
		res := x.havocCall(st, fr, calleeName, sig, args, pos)
		x.unknownCode = false
		k(st, res)
		return
	}
	x.applyContract(st, fr, contract, calleeName, sig, callee, args, fnv, pos, k)
}

func topFrame(fr *Frame) *Frame {
	for fr.parent != nil {
		fr = fr.parent
	}
	return fr
}

func (x *Exec) isInTree(f *ssa.Function) bool {
	p := f.Package()
	if p == nil && f.Parent() != nil {
		p = f.Parent().Package()
	}
	return p != nil && strings.HasPrefix(p.Pkg.Path(), strings.TrimSuffix(repoPrefix, "/"))
}

// autoInline: small in-tree helpers without contract and without loops/calls
// to in-tree functions are executed in place (depth-limited).
func (x *Exec) autoInline(f *ssa.Function) bool {
	if len(f.Blocks) == 0 || len(f.Blocks) > 12 || len(f.AnonFuncs) > 0 || f.Recover != nil {
		return false
	}
	n := 0
	for _, b := range f.Blocks {
		for _, s := range b.Succs {
			if s.Dominates(b) {
				return false // a loop
			}
		}
		for _, ins := range b.Instrs {
			n++
			switch v := ins.(type) {
			case *ssa.Call:
				if _, ok := v.Common().Value.(*ssa.Builtin); !ok {
					return false
				}
			case *ssa.Go, *ssa.Defer, *ssa.Select, *ssa.Send, *ssa.MakeClosure:
				return false
			}
		}
	}
	return n <= 60
}

func (x *Exec) pureCallback(st *State, fv T, sig *types.Signature, args []Val) Val {
	var sorts []string
	var ts []T
	sorts = append(sorts, SInt)
	ts = append(ts, fv)
	for _, a := range args {
		sorts = append(sorts, a.T.Sort)
		ts = append(ts, a.T)
	}
	res := sig.Results()
	mk := func(i int) Val {
		rt := res.At(i).Type()
		f := declFun(fmt.Sprintf("callback%d %s->%s", i, strings.Join(sorts, ","), sortOf(rt)), sorts, sortOf(rt))
		return Val{T: app(sortOf(rt), f, ts...), typ: rt}
	}
	x.note("callback parameters are modelled as pure (deterministic, side-effect free) functions")
	switch res.Len() {
	case 0:
		return Val{}
	case 1:
		return mk(0)
	}
	var tup []Val
	for i := 0; i < res.Len(); i++ {
		tup = append(tup, mk(i))
	}
	return Val{tuple: tup}
}

// freshResult makes unconstrained results of a signature.
func (x *Exec) freshResult(st *State, sig *types.Signature, prefix string) (Val, []Val) {
	res := sig.Results()
	var vs []Val
	for i := 0; i < res.Len(); i++ {
		rt := res.At(i).Type()
		t := fresh(prefix, sortOf(rt))
		st.assume(typingFact(rt, t))
		vs = append(vs, Val{T: t, typ: rt})
	}
	switch len(vs) {
	case 0:
		return Val{}, vs
	case 1:
		return vs[0], vs
	}
	return Val{tuple: vs}, vs
}

// havocAll forgets every heap (used for callees without any contract).
func (x *Exec) havocAll(st *State) {
	x.ensureImmutableHeaps()
	for _, name := range sortedKeys(st.heaps) {
		h := st.heaps[name]
		if name == "Gf mstate" || strings.HasPrefix(name, "Hf sync.") {
			// lock ownership is restored by every callee (it releases what it acquires);
			// the fields of sync objects are not reassigned by callees
			continue
		}
		if x.immutableHeaps[name] {
			// immutable fields keep their values on every object that existed when the verified
			// function was entered; objects still under construction here (allocated since entry,
			// possibly handed to the callee, e.g. to a reflective decoder) are havocked
			if st.entryNext.S == "" {
				continue
			}
			x.havocYoung(st, name, h)
			continue
		}
		st.heaps[name] = fresh(name, h.Sort)
		st.modHeaps[name] = true
	}
	st.ghost["havoc.all"] = mkBool(true)
	st.bumpNext()
}

// havocYoung replaces heap name by a fresh one that agrees with h on every
// reference allocated before the verified function was entered.
func (x *Exec) havocYoung(st *State, name string, h T) {
	nh := fresh(name, h.Sort)
	q := T{quoteSym("q imm r"), SInt}
	st.heaps[name] = nh
	st.assume(T{fmt.Sprintf("(forall ((%s Int)) (! (=> (< %s %s) (= (select %s %s) (select %s %s))) :pattern ((select %s %s))))", q.S, q.S, st.entryNext.S, nh.S, q.S, h.S, q.S, nh.S, q.S), SBool})
}

func (x *Exec) havocCall(st *State, fr *Frame, name string, sig *types.Signature, args []Val, pos token.Pos) Val {
	if x.inInit {
		x.note("external function %s called by a package initialiser is assumed not to modify in-tree state", name)
		res, _ := x.freshResult(st, sig, "r")
		return res
	}
	for _, pre := range []string{"github.com/rs/zerolog", "(*github.com/rs/zerolog", "(github.com/rs/zerolog", "log.", "(*log.", "go.opentelemetry.io/", "(go.opentelemetry.io/", "(*go.opentelemetry.io/"} {
		if strings.HasPrefix(name, pre) {
			res, _ := x.freshResult(st, sig, "r")
			return res
		}
	}
	x.note("UNSPECIFIED callee %s: all heaps havocked, result arbitrary", name)
	x.havocAll(st)
	x.advanceAllLogs(st, args, "", name)
	if x.unknownCode {
		x.advanceAllLogs(st, []Val{{typ: types.NewSignatureType(nil, nil, nil, nil, nil, false)}}, "", name+" (function value)")
	}
	res, _ := x.freshResult(st, sig, "r")
	return res
}

// bindParams builds the contract environment for a call / verification.
func (x *Exec) bindParams(c *Contract, sig *types.Signature, callee *ssa.Function, args []Val) map[string]SV {
	env := map[string]SV{}
	var names []string
	if callee != nil && len(callee.Params) == len(args) {
		for _, p := range callee.Params {
			names = append(names, p.Name())
		}
	} else {
		if sig.Recv() != nil && len(args) == sig.Params().Len()+1 {
			names = append(names, sig.Recv().Name())
		} else if len(args) == sig.Params().Len()+1 {
			names = append(names, "this")
		}
		for i := 0; i < sig.Params().Len(); i++ {
			names = append(names, sig.Params().At(i).Name())
		}
	}
	// explicit parameter names in the contract header override
	if len(c.Params) > 0 {
		if len(c.Params) == len(args) {
			names = append([]string{}, c.Params...)
		} else if len(c.Params) == len(args)-1 {
			names = append([]string{names[0]}, c.Params...)
			if c.Interface || (sig.Recv() != nil) {
				names[0] = "this"
			}
		} else {
			sfail("contract %s names %d parameters, call has %d arguments", c.Target, len(c.Params), len(args))
		}
	}
	for i, a := range args {
		n := ""
		if i < len(names) {
			n = names[i]
		}
		if n == "" || n == "_" {
			n = fmt.Sprintf("arg%d", i)
		}
		env[n] = SV{t: a.T, typ: a.typ, ptrTo: a.addr}
		env[fmt.Sprintf("arg%d", i)] = SV{t: a.T, typ: a.typ, ptrTo: a.addr}
	}
	if c.Interface && len(args) > 0 {
		env["this"] = SV{t: args[0].T, typ: args[0].typ}
	}
	return env
}

func (x *Exec) ctxFor(c *Contract, st *State, old *State, env map[string]SV, fn *ssa.Function) *EvalCtx {
	lets := map[string]Expr{}
	for _, l := range c.Lets {
		lets[l.Name] = l.E
	}
	var pkg *types.Package
	if c.Pkg != "" {
		pkg = x.typesPkg(c.Pkg)
	}
	if pkg == nil && fn != nil && fn.Package() != nil {
		pkg = fn.Package().Pkg
	}
	sf := c.SF
	if sf == nil {
		sf = x.specs[c.Pkg]
	}
	return &EvalCtx{x: x, st: st, old: old, env: env, pkg: pkg, sf: sf, lets: lets, fn: fn}
}

func bindResults(env map[string]SV, sig *types.Signature, vs []Val) {
	for i, v := range vs {
		sv := SV{t: v.T, typ: v.typ}
		env[fmt.Sprintf("result%d", i)] = sv
		if i == 0 {
			env["result"] = sv
		}
		if sig != nil && i < sig.Results().Len() {
			if n := sig.Results().At(i).Name(); n != "" && n != "_" {
				env[n] = sv
			}
		}
	}
	if len(vs) > 0 && sig != nil {
		last := vs[len(vs)-1]
		if last.typ != nil && last.T.Sort == SIface && types.Identical(last.typ, types.Universe.Lookup("error").Type()) {
			if _, ok := env["err"]; !ok {
				env["err"] = SV{t: last.T, typ: last.typ}
			}
		}
	}
}

// applyContract uses a callee's contract at a call site.
func (x *Exec) applyContract(st *State, fr *Frame, c *Contract, name string, sig *types.Signature, callee *ssa.Function, args []Val, fnv *FnVal, pos token.Pos, k func(*State, Val)) {
	if c.External || (callee != nil && !x.isInTree(callee)) || (callee == nil && c.Pkg == "") {
		x.used[c.Target] = true
	}
	if c.Flags["nocallbacks"] {
		x.note("ASSUMED (flag nocallbacks): %s does not call logged functions of this module other than those its contract mentions", c.Target)
	}
	if c.Interface {
		x.note("interface contract %s is an assumption about every implementation (no refinement obligations are generated)", c.Target)
	}
	env := x.bindParams(c, sig, callee, args)
	if fnv != nil && callee != nil {
		for i, fvar := range callee.FreeVars {
			if i < len(fnv.bindings) {
				env[fvar.Name()] = x.freeVarSV(st, fnv.bindings[i], fvar)
			}
		}
	}
	pre := st.snapshot()
	ctx := x.ctxFor(c, st, pre, env, callee)
	short := shortName(name)
	for i, r := range c.Requires {
		g := x.evalClause(ctx, r, c)
		x.require(st, fr, fmt.Sprintf("call:%s/requires#%d", short, i+1), g, pos, "precondition of "+short+": "+r.Text)
	}
	// panicking outcome
	if c.Flags["maypanic"] {
		ps := st.clone()
		x.applyModifies(ps, ctx, c)
		x.logCall(ps, c, short, args, nil, true)
		x.paths++
		x.unwind(ps, fr, pos)
	}
	if x.dry == 0 {
		x.checks = append(x.checks, &Check{Name: funcDisplayName(topFrame(fr).fn) + "/cover/before:" + short + "@" + x.pos(pos), At: st.ev, Cover: true, Fn: topFrame(fr).fn.String(), Where: x.pos(pos)})
	}
	x.applyModifies(st, ctx, c)
	if c.ModAll && !c.Flags["nocallbacks"] {
		x.advanceAllLogs(st, args, logKey(c), c.Target)
	}
	advanced := map[string]bool{}
	for _, lk := range x.logsMentioned(c) {
		if lk != logKey(c) {
			x.advanceLog(st, lk)
			advanced[lk] = true
		}
	}
	if callee != nil && len(callee.Blocks) > 0 && x.isInTree(callee) {
		if os.Getenv("VERIF_DEBUG_LOGS") != "" {
			fmt.Fprintf(os.Stderr, "reachable logs of %s: %v\n", callee, x.reachableLogs(callee))
		}
		for _, lk := range x.reachableLogs(callee) {
			if lk != logKey(c) && !advanced[lk] {
				x.advanceLog(st, lk)
			}
		}
	}
	res, vs := x.freshResult(st, sig, "ret")
	for _, v := range vs {
		// whatever a callee returns refers to objects that exist when it returns
		x.assumeAllocated(st, v.typ, v.T)
	}
	bindResults(env, sig, vs)
	x.logCall(st, c, short, args, vs, false)
	post := x.ctxFor(c, st, pre, env, callee)
	for _, e := range c.Ensures {
		st.assume(x.evalClause(post, e, c))
	}
	if x.dry == 0 {
		x.checks = append(x.checks, &Check{Name: funcDisplayName(topFrame(fr).fn) + "/cover/after:" + short + "@" + x.pos(pos), At: st.ev, Cover: true, Fn: topFrame(fr).fn.String(), Where: x.pos(pos)})
	}
	k(st, res)
}

func shortName(n string) string {
	return strings.ReplaceAll(n, repoPrefix, "")
}

func (x *Exec) evalClause(ctx *EvalCtx, cl Clause, c *Contract) (t T) {
	defer func() {
		if r := recover(); r != nil {
			if se, ok := r.(specErr); ok {
				panic(specErr{fmt.Sprintf("%s:%d: %s (in %q)", c.File, cl.Line, se.msg, cl.Text)})
			}
			panic(r)
		}
	}()
	return ctx.boolOf(cl.E)
}

func (x *Exec) freeVarSV(st *State, b Val, fvar *ssa.FreeVar) SV {
	elem := deref(fvar.Type())
	var a *Addr
	if b.addr != nil {
		a = b.addr
	} else {
		a = refAddr(b.T, elem)
	}
	if isStruct(elem) {
		return SV{addr: a, typ: elem}
	}
	return SV{t: st.load(a), typ: elem}
}

// ModTarget is one modified region.
type ModTarget struct {
	heap string
	sort string
	ref  *T // nil: whole heap
	key  *T // for maps: single key (nil = whole map)
	ghost string
	glob *ssa.Global
	all  bool // *dyn(v) with a dynamic type that is not known at the call site: everything may change
}

func (x *Exec) modTargets(ctx *EvalCtx, c *Contract, exprs []Expr) []ModTarget {
	var out []ModTarget
	st := ctx.st
	addStructLeaves := func(root T, rootT types.Type, prefix []int) {
		for _, l := range structLeaves(rootT) {
			if hasPrefix(l.path, prefix) {
				r := root
				out = append(out, ModTarget{heap: fieldHeapName(rootT, l.name()), sort: arraySort(SInt, sortOf(l.typ)), ref: &r})
			}
		}
	}
	for _, e := range exprs {
		switch v := e.(type) {
		case *EIdent:
			if _, ok := st.ghost[v.Name]; ok || strings.HasPrefix(v.Name, "ghost_") {
				out = append(out, ModTarget{ghost: v.Name})
				continue
			}
		case *ECall:
			if gf, ok := x.ghostFields[v.Fun]; ok {
				sort, _ := x.ghostSort(gf.Type, x.typesPkg(gf.Pkg), ctx.sf)
				r := ctx.value(ctx.eval(v.Args[0]))
				out = append(out, ModTarget{heap: "Gf " + gf.Name, sort: arraySort(SInt, sort), ref: &r})
				continue
			}
			switch v.Fun {
			case "elems":
				s := ctx.eval(v.Args[0])
				stt := ctx.value(s)
				el := s.typ.Underlying().(*types.Slice).Elem()
				r := sliceArr(stt)
				out = append(out, ModTarget{heap: arrHeapName(el), sort: arraySort(SInt, arraySort(SInt, sortOf(el))), ref: &r})
				continue
			case "mapof":
				m := ctx.eval(v.Args[0])
				mt := ctx.value(m)
				mtyp := m.typ.Underlying().(*types.Map)
				out = append(out, ModTarget{heap: mapDomName(m.typ), sort: arraySort(SInt, arraySort(sortOf(mtyp.Key()), SBool)), ref: &mt})
				out = append(out, ModTarget{heap: mapValName(m.typ), sort: arraySort(SInt, arraySort(sortOf(mtyp.Key()), sortOf(mtyp.Elem()))), ref: &mt})
				continue
			case "ghost":
				id := v.Args[0].(*EIdent)
				out = append(out, ModTarget{ghost: id.Name})
				continue
			case "allfields":
				// allfields(T.f): the field heap of every object
				ty := ctx.eval(v.Args[0])
				_ = ty
				sfail("allfields not supported yet")
			case "log":
				id := v.Args[0].(*EIdent)
				out = append(out, ModTarget{ghost: "log." + id.Name})
				continue
			}
		case *EUnary:
			if v.Op == "*" {
				var p SV
				var pt T
				if dc, ok := v.X.(*ECall); ok && dc.Fun == "dyn" && len(dc.Args) == 1 {
					// *dyn(v): the object an interface value points to, with the dynamic type it has at this call site
					iv := ctx.value(ctx.eval(dc.Args[0]))
					tag := ifaceTag(iv)
					id, err := strconv.Atoi(tag.S)
					dt, known := typeByTag[id]
					if err != nil || !known {
						out = append(out, ModTarget{all: true})
						continue
					}
					if _, isPtr := dt.Underlying().(*types.Pointer); !isPtr {
						continue // a boxed non-pointer value cannot be written through
					}
					p = SV{t: ifacePl(iv), typ: dt}
					pt = p.t
				} else {
					p = ctx.eval(v.X)
					pt = ctx.value(p)
				}
				elem := deref(p.typ)
				if p.ptrTo != nil && interiorStructAddr(p.ptrTo) {
					var prefix []int
					for _, s := range p.ptrTo.path {
						prefix = append(prefix, s.field)
					}
					addStructLeaves(p.ptrTo.root, p.ptrTo.rootT, prefix)
				} else if isStruct(elem) {
					addStructLeaves(pt, elem, nil)
				} else if arr, ok := elem.Underlying().(*types.Array); ok {
					out = append(out, ModTarget{heap: arrHeapName(arr.Elem()), sort: arraySort(SInt, arraySort(SInt, sortOf(arr.Elem()))), ref: &pt})
				} else {
					out = append(out, ModTarget{heap: cellHeapName(elem), sort: arraySort(SInt, sortOf(elem)), ref: &pt})
				}
				continue
			}
		case *ESel:
			// p.f
			base := ctx.eval(v.X)
			typ := base.typ
			if typ == nil {
				sfail("modifies: untyped base")
			}
			var root T
			var rootT types.Type
			var prefix []int
			if p, ok := typ.Underlying().(*types.Pointer); ok {
				root = ctx.value(base)
				rootT = p.Elem()
			} else if base.addr != nil && base.addr.kind == aStruct {
				root = base.addr.root
				rootT = base.addr.rootT
				for _, s := range base.addr.path {
					prefix = append(prefix, s.field)
				}
				typ = base.addr.typ
			} else if base.addr != nil && base.addr.kind == aGlobal {
				out = append(out, ModTarget{glob: base.addr.glob})
				continue
			} else {
				sfail("modifies: base of %s is not a pointer", v.Name)
			}
			cur := rootT
			if len(prefix) > 0 {
				_, cur = prefixNames(rootT, prefix)
			}
			obj, index, _ := types.LookupFieldOrMethod(cur, true, nil, v.Name)
			if obj == nil {
				if n, ok := cur.(*types.Named); ok {
					obj, index, _ = types.LookupFieldOrMethod(cur, true, n.Obj().Pkg(), v.Name)
				}
			}
			if obj == nil {
				sfail("modifies: no field %s", v.Name)
			}
			full := append(append([]int{}, prefix...), index...)
			addStructLeaves(root, rootT, full)
			continue
		}
		// a global variable name?
		if id, ok := e.(*EIdent); ok && ctx.pkg != nil {
			if obj, ok := ctx.pkg.Scope().Lookup(id.Name).(*types.Var); ok {
				if g := x.globalFor(obj); g != nil {
					out = append(out, ModTarget{glob: g})
					continue
				}
			}
		}
		sfail("unsupported modifies target in %s", c.Target)
	}
	return out
}

func (x *Exec) applyModifies(st *State, ctx *EvalCtx, c *Contract) {
	if c.ModAll {
		x.havocAll(st)
		return
	}
	targets := x.modTargets(ctx, c, c.Modifies)
	for _, m := range targets {
		if m.all {
			x.havocAll(st)
			return
		}
	}
	for _, m := range targets {
		switch {
		case m.ghost != "":
			cur, ok := st.ghost[m.ghost]
			sort := SInt
			if ok {
				sort = cur.Sort
			}
			st.ghost[m.ghost] = fresh("ghost "+m.ghost, sort)
		case m.glob != nil:
			t := deref(m.glob.Type())
			nv := fresh("G "+m.glob.Name(), sortOf(t))
			st.assume(typingFact(t, nv))
			st.globals[m.glob] = nv
		case m.ref == nil:
			st.heaps[m.heap] = fresh(m.heap, m.sort)
			st.modHeaps[m.heap] = true
		default:
			h := st.heap(m.heap, m.sort)
			nv := fresh("mod", arrayElemSort(m.sort))
			st.logStore(m.heap, *m.ref)
			st.setHeap(m.heap, store(h, *m.ref, nv))
		}
	}
	st.bumpNext()
}

// ---------------------------------------------------------------------------
// Inlining

func (x *Exec) inlineCall(st *State, fr *Frame, callee *ssa.Function, fnv *FnVal, args []Val, pos token.Pos, k func(*State, Val)) {
	if fr.depth > 6 {
		unsupported("inline depth exceeded at %s", callee)
	}
	nf := &Frame{fn: callee, parent: fr, depth: fr.depth + 1, ndefer: len(st.defers), entryNext: st.next}
	if ic := x.contractFor(callee); ic != nil && len(args) == len(callee.Params) {
		// parameter names for the loop invariants of an inline contract
		func() {
			defer func() { recover() }()
			nf.env = x.bindParams(ic, callee.Signature, callee, args)
		}()
		nf.pre = st.snapshot()
	}
	for i, p := range callee.Params {
		if i < len(args) {
			st.vals[p] = args[i]
		}
	}
	if fnv != nil {
		for i, fv := range callee.FreeVars {
			if i < len(fnv.bindings) {
				st.vals[fv] = fnv.bindings[i]
			}
		}
	} else if len(callee.FreeVars) > 0 {
		unsupported("inlining closure %s without its bindings", callee)
	}
	for _, b := range callee.Blocks {
		delete(st.cut, b)
	}
	nf.onReturn = func(st2 *State, res []Val) {
		switch len(res) {
		case 0:
			k(st2, Val{})
		case 1:
			k(st2, res[0])
		default:
			k(st2, Val{tuple: res})
		}
	}
	st.prevBlock = nil
	x.runBlock(st, nf, callee.Blocks[0])
}

// ---------------------------------------------------------------------------
// Return, panic, defers

func (x *Exec) doReturn(st *State, fr *Frame, res []Val, pos token.Pos) {
	if x.dry > 0 && fr == x.dryFrame {
		return
	}
	if fr.parent != nil || fr.onReturn != nil {
		fr.onReturn(st, res)
		return
	}
	x.paths++
	x.retPaths++
	c := fr.contract
	sig := fr.fn.Signature
	env := map[string]SV{}
	for k2, v := range fr.env {
		env[k2] = v
	}
	bindResults(env, sig, res)
	if c != nil {
		ctx := x.ctxFor(c, st, fr.pre, env, fr.fn)
		for i, e := range c.Ensures {
			g := x.evalClause(ctx, e, c)
			label := fmt.Sprintf("ensures#%d", i+1)
			if e.Name != "" {
				label = "ensures:" + e.Name
			}
			// a postcondition that carries the label of a loop invariant is first tried with that
			// invariant alone among the loop's quantified invariants (focus level)
			if e.Name != "" && fr.parent == nil {
				var ords []int
				for ord := range c.Loops {
					ords = append(ords, ord)
				}
				sort.Ints(ords)
				for _, ord := range ords {
					for j, inv := range c.Loops[ord].Invariants {
						if inv.Name == e.Name {
							x.nextFocus = fmt.Sprintf("%s#L%d/inv#%d", fr.fn.String(), ord, j+1)
						}
					}
				}
			}
			x.addCheck(st, fr, label, g, pos, e.Text)
			x.nextFocus = ""
		}
		x.frameCheck(st, fr, ctx, c, pos)
	}
	// reachability cover for this return path
	if x.dry > 0 {
		return
	}
	x.checks = append(x.checks, &Check{Name: funcDisplayName(fr.fn) + "/cover/return", At: st.ev, Cover: true, Fn: fr.fn.String(), Where: x.pos(pos)})
}

// frameGoal: for every listed heap, objects allocated before the call and not
// named in modifies have the contents they had at entry (r is the object).
func (x *Exec) frameGoal(st *State, top *Frame, names []string, r T) T {
	c := top.contract
	if c == nil || c.ModAll {
		return mkBool(true)
	}
	pre := top.pre
	ctx := x.ctxFor(c, pre, pre, top.env, top.fn)
	targets := x.modTargets(ctx, c, c.Modifies)
	byHeap := map[string][]ModTarget{}
	for _, m := range targets {
		if m.all {
			return mkBool(true)
		}
		if m.ghost == "" && m.glob == nil {
			byHeap[m.heap] = append(byHeap[m.heap], m)
		}
	}
	var goals []T
	for _, name := range names {
		cur, ok := st.heaps[name]
		if !ok {
			continue
		}
		old, ok := pre.heaps[name]
		if !ok {
			old = declConst(name, cur.Sort)
		}
		if cur.S == old.S {
			continue
		}
		whole := false
		var excl []T
		for _, m := range byHeap[name] {
			if m.ref == nil {
				whole = true
			} else {
				excl = append(excl, not(eq(r, *m.ref)))
			}
		}
		if whole {
			continue
		}
		cond := and(append([]T{app(SBool, "<", r, top.entryNext), app(SBool, "<", mkInt(0), r)}, excl...)...)
		goals = append(goals, implies(cond, eq(sel(cur, r), sel(old, r))))
	}
	return and(goals...)
}

// frameCheck: everything not named in modifies is unchanged for objects
// allocated before the call.
func (x *Exec) frameCheck(st *State, fr *Frame, ctx *EvalCtx, c *Contract, pos token.Pos) {
	if c.ModAll {
		return
	}
	pre := fr.pre
	preCtx := ctx.inOld()
	targets := x.modTargets(preCtx, c, c.Modifies)
	ghostMod := map[string]bool{}
	globMod := map[*ssa.Global]bool{}
	for _, m := range targets {
		if m.all {
			return
		}
		if m.ghost != "" {
			ghostMod[m.ghost] = true
		} else if m.glob != nil {
			globMod[m.glob] = true
		}
	}
	r := declConst("frame.r", SInt)
	goals := []T{x.frameGoal(st, fr, sortedKeys(st.heaps), r)}
	for g, cur := range st.globals {
		old, ok := pre.globals[g]
		if globMod[g] {
			continue
		}
		if !ok {
			old = declConst("G "+g.String(), cur.Sort)
		}
		if cur.S != old.S {
			goals = append(goals, eq(cur, old))
		}
	}
	for name, cur := range st.ghost {
		if ghostMod[name] || strings.HasPrefix(name, "log.") || strings.HasPrefix(name, "alloc.") || strings.HasPrefix(name, "visited.") || name == "havoc.all" {
			continue
		}
		if old, ok := pre.ghost[name]; ok && old.S != cur.S {
			goals = append(goals, eq(cur, old))
		}
	}
	x.addCheck(st, fr, "frame", and(goals...), pos, "only locations named in modifies change (for objects allocated before the call)")
}

func (x *Exec) doPanic(st *State, fr *Frame, v *ssa.Panic) {
	top := topFrame(fr)
	if top.contract != nil && top.contract.Flags["explicitpanic"] {
		x.paths++
		return
	}
	ps := st
	ps.panicking = true
	x.unwindWith(ps, fr, v.Pos(), "explicit panic")
}

// unwind handles a panic raised at pos in frame fr.
func (x *Exec) unwind(st *State, fr *Frame, pos token.Pos) {
	st.panicking = true
	st.recovered = false
	x.unwindWith(st, fr, pos, "a callee declared maypanic panics")
}

func (x *Exec) unwindWith(st *State, fr *Frame, pos token.Pos, why string) {
	st.panicking = true
	x.runDefers(st, fr, func(st2 *State) {
		if st2.recovered {
			st2.recovered = false
			st2.panicking = false
			if fr.fn.Recover != nil {
				st2.prevBlock = nil
				x.runBlock(st2, fr, fr.fn.Recover)
				return
			}
			// no named results: zero values are returned
			var res []Val
			rs := fr.fn.Signature.Results()
			for i := 0; i < rs.Len(); i++ {
				res = append(res, Val{T: zeroOf(rs.At(i).Type()), typ: rs.At(i).Type()})
			}
			x.doReturn(st2, fr, res, pos)
			return
		}
		if fr.parent != nil {
			x.unwindWith(st2, fr.parent, pos, why)
			return
		}
		x.paths++
		if x.dry > 0 || fr.contract != nil && fr.contract.Flags["maypanic"] {
			return
		}
		x.addCheck(st2, fr, "nopanic/propagated", mkBool(false), pos, "the function panics: "+why)
	})
}

func (x *Exec) runDefers(st *State, fr *Frame, k func(*State)) {
	if len(st.defers) <= fr.ndefer {
		k(st)
		return
	}
	d := st.defers[len(st.defers)-1]
	st.defers = st.defers[:len(st.defers)-1]
	x.execDeferred(st, fr, d, func(st2 *State) {
		x.runDefers(st2, fr, k)
	})
}

func (x *Exec) execDeferred(st *State, fr *Frame, d deferred, k func(*State)) {
	c := d.call
	if b, ok := c.Value.(*ssa.Builtin); ok {
		_ = b
		unsupported("deferred builtin %s", b.Name())
	}
	var callee *ssa.Function
	var fnv *FnVal
	var sig *types.Signature
	var contract *Contract
	name := ""
	args := d.args
	if c.IsInvoke() {
		args = append([]Val{{T: d.fnv.T, typ: c.Value.Type()}}, d.args...)
		sig = c.Method.Type().(*types.Signature)
		contract = x.ifaceContract(c.Method)
		name = c.Method.FullName()
	} else {
		callee = c.StaticCallee()
		if callee == nil && d.fnv.fn != nil {
			callee = d.fnv.fn.fn
		}
		if d.fnv.fn != nil {
			fnv = d.fnv.fn
		}
		sig = c.Signature()
		if callee != nil {
			contract = x.contractFor(callee)
			name = callee.String()
		}
	}
	pos := c.Pos()
	if callee != nil && len(callee.Blocks) > 0 && (contract == nil || contract.Flags["inline"]) && x.isInTree(callee) {
		x.inlineCall(st, fr, callee, fnv, args, pos, func(st2 *State, _ Val) { k(st2) })
		return
	}
	if contract == nil {
		x.havocCall(st, fr, name, sig, args, pos)
		k(st)
		return
	}
	x.applyContract(st, fr, contract, name, sig, callee, args, fnv, pos, func(st2 *State, _ Val) { k(st2) })
}

// ---------------------------------------------------------------------------
// Builtins

func (x *Exec) builtin(st *State, fr *Frame, b *ssa.Builtin, c *ssa.CallCommon, instr ssa.Instruction) Val {
	pos := instr.Pos()
	var resT types.Type
	if v, ok := instr.(ssa.Value); ok {
		resT = v.Type()
	}
	switch b.Name() {
	case "len":
		a := x.term(st, c.Args[0])
		switch u := c.Args[0].Type().Underlying().(type) {
		case *types.Slice:
			return Val{T: sliceLen(a), typ: resT}
		case *types.Basic:
			return Val{T: app(SInt, "str.len", a), typ: resT}
		case *types.Map:
			ks := sortOf(u.Key())
			f := declFun("maplen "+ks, []string{arraySort(ks, SBool)}, SInt)
			l := fresh("maplen", SInt)
			st.assume(eq(l, ite(eq(a, mkInt(0)), mkInt(0), app(SInt, f, sel(st.mapDom(c.Args[0].Type()), a)))))
			st.assume(app(SBool, ">=", l, mkInt(0)))
			return Val{T: l, typ: resT}
		case *types.Array:
			return Val{T: mkInt(u.Len()), typ: resT}
		case *types.Pointer:
			return Val{T: mkInt(u.Elem().Underlying().(*types.Array).Len()), typ: resT}
		}
	case "cap":
		a := x.term(st, c.Args[0])
		if _, ok := c.Args[0].Type().Underlying().(*types.Slice); ok {
			return Val{T: sliceCap(a), typ: resT}
		}
	case "append":
		return x.doAppend(st, fr, c, resT, pos)
	case "copy":
		return x.doCopy(st, fr, c, resT, pos)
	case "delete":
		if pv := x.val(st, c.Args[0]); pv.prot != nil {
			x.lockCheck(st, fr, pv.prot, true, pos, "delete from the map in "+pv.prot.field)
		}
		m := x.term(st, c.Args[0])
		k := x.term(st, c.Args[1])
		mt := c.Args[0].Type()
		d := st.mapDom(mt)
		// delete on a nil map is a no-op
		st.setHeap(mapDomName(mt), ite(eq(m, mkInt(0)), d, store(d, m, store(sel(d, m), k, mkBool(false)))))
		return Val{}
	case "recover":
		if st.panicking {
			st.panicking = false
			st.recovered = true
			pv := fresh("panicval", SIface)
			st.assume(not(eq(ifaceTag(pv), mkInt(0))))
			return Val{T: pv, typ: resT}
		}
		return Val{T: nilIface(), typ: resT}
	case "print", "println":
		return Val{}
	case "min", "max":
		a := x.term(st, c.Args[0])
		for _, o := range c.Args[1:] {
			bv := x.term(st, o)
			if b.Name() == "min" {
				a = ite(app(SBool, "<=", a, bv), a, bv)
			} else {
				a = ite(app(SBool, ">=", a, bv), a, bv)
			}
		}
		return Val{T: a, typ: resT}
	case "ssa:wrapnilchk":
		a := x.val(st, c.Args[0])
		t := x.materialize(st, a)
		x.require(st, fr, "nopanic/nil", not(eq(t, mkInt(0))), pos, "nil receiver in wrapper")
		return Val{T: t, typ: resT, fn: a.fn}
	case "ssa:deferstack":
		return Val{T: mkInt(0), typ: resT}
	}
	unsupported("builtin %s", b.Name())
	return Val{}
}

func (x *Exec) doAppend(st *State, fr *Frame, c *ssa.CallCommon, resT types.Type, pos token.Pos) Val {
	s := x.term(st, c.Args[0])
	el := resT.Underlying().(*types.Slice).Elem()
	es := sortOf(el)
	as := arraySort(SInt, es)
	h := st.arrHeap(el)
	var n T
	var src func(j T) T
	var nConst = -1
	if isString(c.Args[1].Type()) { // append([]byte, string...)
		str := x.term(st, c.Args[1])
		n = app(SInt, "str.len", str)
		src = func(j T) T { return strByte(str, j) }
	} else {
		t := x.term(st, c.Args[1])
		n = sliceLen(t)
		tarr := st.name("src", sel(h, sliceArr(t)))
		toff := sliceOff(t)
		src = func(j T) T { return sel(tarr, app(SInt, "+", toff, j)) }
		if k, ok := smallConst(n); ok {
			nConst = k
		}
	}
	oldArr := st.name("oarr", sel(h, sliceArr(s)))
	ln := sliceLen(s)
	if cell := ownedAccumulator(c); cell != nil && nConst >= 1 && nConst <= 8 {
		// append on a function-local accumulator (x = append(x, e...)): copy-on-append
		// without quantifiers; the slice always starts at offset 0 of its own array
		x.note("append on function-local accumulator slices (x = append(x, ...)) is modelled as copy-on-append into a fresh array")
		r := st.allocate("app")
		content := oldArr
		// normalise to offset 0: for owned accumulators the offset is 0 by construction, otherwise shift is needed
		offZero := eq(sliceOff(s), mkInt(0))
		for j := 0; j < nConst; j++ {
			content = store(content, app(SInt, "+", ln, mkInt(int64(j))), src(mkInt(int64(j))))
		}
		newLen := app(SInt, "+", ln, mkInt(int64(nConst)))
		capF := fresh("cap", SInt)
		st.assume(and(app(SBool, ">=", capF, newLen), app(SBool, "<=", capF, T{"140737488355328", SInt})))
		st.assume(offZero)
		st.setHeap(arrHeapName(el), store(h, r, content))
		// ground hints (consequences of the store above): they put the terms "new slice at the appended
		// positions" into the solver's term bank, so quantified goals about the new slice can be instantiated there
		nh := st.heaps[arrHeapName(el)]
		for j := 0; j < nConst; j++ {
			st.assume(eq(sel(sel(nh, r), app(SInt, "+", mkInt(0), app(SInt, "+", ln, mkInt(int64(j))))), src(mkInt(int64(j)))))
		}
		return Val{T: st.name("appres", mkSlice(r, mkInt(0), newLen, capF)), typ: resT}
	}
	newLen := st.name("nlen", app(SInt, "+", ln, n))
	fits := st.name("fits", and(app(SBool, "<=", newLen, sliceCap(s)), not(eq(n, mkInt(0)))))
	// n == 0: append returns s itself (possibly nil)
	r := st.allocate("app")
	// in-place content
	var inplace, freshC T
	if nConst >= 0 && nConst <= 8 {
		inplace = oldArr
		base := fresh("appbase", as)
		// fresh backing array: copy of the old elements
		st.assume(T{fmt.Sprintf("(forall ((j Int)) (! (=> (and (<= 0 j) (< j %s)) (= (select %s j) (select %s (+ %s j)))) :pattern ((select %s j))))", ln.S, base.S, oldArr.S, sliceOff(s).S, base.S), SBool})
		freshC = base
		for j := 0; j < nConst; j++ {
			v := src(mkInt(int64(j)))
			inplace = store(inplace, app(SInt, "+", sliceOff(s), ln, mkInt(int64(j))), v)
			freshC = store(freshC, app(SInt, "+", ln, mkInt(int64(j))), v)
		}
	} else {
		ip := fresh("appin", as)
		fc := fresh("appfresh", as)
		jv := T{"j", SInt}
		st.assume(T{fmt.Sprintf("(forall ((j Int)) (! (= (select %s j) (ite (and (<= (+ %s %s) j) (< j (+ %s %s))) %s (select %s j))) :pattern ((select %s j))))",
			ip.S, sliceOff(s).S, ln.S, sliceOff(s).S, newLen.S, src(app(SInt, "-", jv, app(SInt, "+", sliceOff(s), ln))).S, oldArr.S, ip.S), SBool})
		st.assume(T{fmt.Sprintf("(forall ((j Int)) (! (=> (and (<= 0 j) (< j %s)) (= (select %s j) (ite (< j %s) (select %s (+ %s j)) %s))) :pattern ((select %s j))))",
			newLen.S, fc.S, ln.S, oldArr.S, sliceOff(s).S, src(app(SInt, "-", jv, ln)).S, fc.S), SBool})
		inplace, freshC = ip, fc
	}
	capF := fresh("cap", SInt)
	st.assume(and(app(SBool, ">=", capF, newLen), app(SBool, "<=", capF, T{"140737488355328", SInt})))
	nh := ite(eq(n, mkInt(0)), h, ite(fits, store(h, sliceArr(s), inplace), store(h, r, freshC)))
	st.setHeap(arrHeapName(el), nh)
	res := ite(eq(n, mkInt(0)), s, ite(fits,
		mkSlice(sliceArr(s), sliceOff(s), newLen, sliceCap(s)),
		mkSlice(r, mkInt(0), newLen, capF)))
	rv := st.name("appres", res)
	return Val{T: rv, typ: resT}
}

func (x *Exec) doCopy(st *State, fr *Frame, c *ssa.CallCommon, resT types.Type, pos token.Pos) Val {
	dst := x.term(st, c.Args[0])
	el := c.Args[0].Type().Underlying().(*types.Slice).Elem()
	as := arraySort(SInt, sortOf(el))
	h := st.arrHeap(el)
	var n T
	var src func(j T) T
	if isString(c.Args[1].Type()) {
		str := x.term(st, c.Args[1])
		sl := app(SInt, "str.len", str)
		n = ite(app(SBool, "<=", sliceLen(dst), sl), sliceLen(dst), sl)
		src = func(j T) T { return strByte(str, j) }
	} else {
		s := x.term(st, c.Args[1])
		n = ite(app(SBool, "<=", sliceLen(dst), sliceLen(s)), sliceLen(dst), sliceLen(s))
		sarr := st.name("src", sel(h, sliceArr(s)))
		src = func(j T) T { return sel(sarr, app(SInt, "+", sliceOff(s), j)) }
	}
	n = st.name("ncopy", n)
	old := st.name("darr", sel(h, sliceArr(dst)))
	nc := fresh("copied", as)
	jv := T{"j", SInt}
	st.assume(T{fmt.Sprintf("(forall ((j Int)) (! (= (select %s j) (ite (and (<= %s j) (< j (+ %s %s))) %s (select %s j))) :pattern ((select %s j))))",
		nc.S, sliceOff(dst).S, sliceOff(dst).S, n.S, src(app(SInt, "-", jv, sliceOff(dst))).S, old.S, nc.S), SBool})
	st.setHeap(arrHeapName(el), ite(eq(n, mkInt(0)), h, store(h, sliceArr(dst), nc)))
	return Val{T: n, typ: resT}
}

// ---------------------------------------------------------------------------
// range over maps (Range/Next)

type mapIter struct {
	m       T
	mtyp    types.Type
	visited string // ghost name
}

func (x *Exec) doRange(st *State, fr *Frame, v *ssa.Range) {
	switch v.X.Type().Underlying().(type) {
	case *types.Map:
		m := x.term(st, v.X)
		mt := v.X.Type().Underlying().(*types.Map)
		ks := sortOf(mt.Key())
		vs := arraySort(ks, SBool)
		name := "visited." + v.Parent().String() + "." + v.Name()
		st.ghost[name] = T{fmt.Sprintf("((as const %s) false)", vs), vs}
		st.vals[v] = Val{T: m, typ: v.X.Type()}
	default:
		unsupported("range over %s", v.X.Type())
	}
}

func (x *Exec) doNext(st *State, fr *Frame, v *ssa.Next) {
	rng, ok := v.Iter.(*ssa.Range)
	if !ok || v.IsString {
		unsupported("Next over a string / non-range iterator")
	}
	m := st.vals[rng].T
	mtyp := rng.X.Type()
	mt := mtyp.Underlying().(*types.Map)
	ks := sortOf(mt.Key())
	name := "visited." + rng.Parent().String() + "." + rng.Name()
	visited := st.ghost[name]
	dom := sel(st.mapDom(mtyp), m)
	okv := fresh("next.ok", SBool)
	key := fresh("next.k", ks)
	val := fresh("next.v", sortOf(mt.Elem()))
	q := T{quoteSym("q k"), ks}
	nonnil := not(eq(m, mkInt(0)))
	// ok ==> key in dom \ visited ; !ok ==> dom ⊆ visited
	st.assume(implies(okv, and(nonnil, sel(dom, key), not(sel(visited, key)), eq(val, sel(sel(st.mapVal(mtyp), m), key)))))
	st.assume(implies(not(okv), or(not(nonnil), T{fmt.Sprintf("(forall ((%s %s)) (=> (select %s %s) (select %s %s)))", q.S, ks, dom.S, q.S, visited.S, q.S), SBool})))
	st.assume(typingFact(mt.Key(), key))
	st.assume(typingFact(mt.Elem(), val))
	if isPointerLike(mt.Elem()) {
		st.assume(app(SBool, "<", val, st.next))
	}
	st.ghost[name] = st.name("visited", ite(okv, store(visited, key, mkBool(true)), visited))
	st.vals[v] = Val{tuple: []Val{{T: okv, typ: types.Typ[types.Bool]}, {T: key, typ: mt.Key()}, {T: val, typ: mt.Elem()}}, typ: v.Type()}
}

// ownedAccumulator recognises x = append(x, ...) on a non-escaping local slice
// variable that is only ever assigned nil, a slice literal / make, or such an
// append of itself.
func ownedAccumulator(c *ssa.CallCommon) *ssa.Alloc {
	ld, ok := c.Args[0].(*ssa.UnOp)
	if !ok || ld.Op != token.MUL {
		return nil
	}
	cell, ok := ld.X.(*ssa.Alloc)
	if !ok {
		return nil
	}
	refs := cell.Referrers()
	if refs == nil {
		return nil
	}
	if cell.Heap {
		// a variable captured by closures that only read it is still owned by this function
		for _, r := range *refs {
			switch v := r.(type) {
			case *ssa.Store, *ssa.DebugRef:
			case *ssa.UnOp:
				if v.Op != token.MUL {
					return nil
				}
			case *ssa.MakeClosure:
				fn, _ := v.Fn.(*ssa.Function)
				if fn == nil {
					return nil
				}
				for i, b := range v.Bindings {
					if b != cell {
						continue
					}
					if i >= len(fn.FreeVars) {
						return nil
					}
					fr := fn.FreeVars[i].Referrers()
					if fr == nil {
						continue
					}
					for _, u := range *fr {
						switch w := u.(type) {
						case *ssa.DebugRef:
						case *ssa.UnOp:
							if w.Op != token.MUL {
								return nil
							}
						default:
							return nil
						}
					}
				}
			default:
				return nil
			}
		}
	}
	for _, r := range *refs {
		st, ok := r.(*ssa.Store)
		if !ok {
			continue
		}
		if st.Addr != cell {
			return nil
		}
		switch v := st.Val.(type) {
		case *ssa.Const:
			if v.Value != nil {
				return nil
			}
		case *ssa.Call:
			b, isB := v.Common().Value.(*ssa.Builtin)
			if !isB || b.Name() != "append" {
				return nil
			}
			l2, ok := v.Common().Args[0].(*ssa.UnOp)
			if !ok || l2.X != cell {
				return nil
			}
		case *ssa.UnOp:
			// named result: "return slots, nil" stores the variable into itself
			if v.Op != token.MUL || v.X != cell {
				return nil
			}
		case *ssa.MakeSlice:
		case *ssa.Slice:
			// slice literal: slice of a freshly allocated array, full range from 0
			a, ok := v.X.(*ssa.Alloc)
			if !ok || !a.Heap || v.Low != nil {
				return nil
			}
		default:
			return nil
		}
	}
	return cell
}

// readOverWrite simplifies (select (store a i v) i) to v, repeatedly, at the top of a term.
// It is used only to recognise a value that went through a freshly allocated cell.
func readOverWrite(t string) string {
	for {
		if !strings.HasPrefix(t, "(select ") {
			return t
		}
		args := splitArgs(t)
		if len(args) != 3 || !strings.HasPrefix(args[1], "(store ") {
			return t
		}
		st := splitArgs(args[1])
		if len(st) != 4 || st[2] != args[2] {
			return t
		}
		t = st[3]
	}
}
