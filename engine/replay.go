package main

import (
	"fmt"
	"strings"
)

// ---------------------------------------------------------------------------
// S-expressions (solver models)

type sexp struct {
	atom string
	list []*sexp
	isL  bool
}

func (s *sexp) String() string {
	if !s.isL {
		return s.atom
	}
	var parts []string
	for _, c := range s.list {
		parts = append(parts, c.String())
	}
	return "(" + strings.Join(parts, " ") + ")"
}

func parseSexps(src string) []*sexp {
	var out []*sexp
	i := 0
	var parse func() *sexp
	skip := func() {
		for i < len(src) {
			c := src[i]
			if c == ' ' || c == '\n' || c == '\t' || c == '\r' {
				i++
			} else if c == ';' {
				for i < len(src) && src[i] != '\n' {
					i++
				}
			} else {
				break
			}
		}
	}
	parse = func() *sexp {
		skip()
		if i >= len(src) {
			return nil
		}
		switch src[i] {
		case '(':
			i++
			n := &sexp{isL: true}
			for {
				skip()
				if i >= len(src) {
					return n
				}
				if src[i] == ')' {
					i++
					return n
				}
				c := parse()
				if c == nil {
					return n
				}
				n.list = append(n.list, c)
			}
		case ')':
			i++
			return nil
		case '|':
			j := i + 1
			for j < len(src) && src[j] != '|' {
				j++
			}
			a := src[i:min(j+1, len(src))]
			i = j + 1
			return &sexp{atom: a}
		case '"':
			j := i + 1
			for j < len(src) {
				if src[j] == '"' {
					if j+1 < len(src) && src[j+1] == '"' {
						j += 2
						continue
					}
					break
				}
				j++
			}
			a := src[i:min(j+1, len(src))]
			i = j + 1
			return &sexp{atom: a}
		default:
			j := i
			for j < len(src) && !strings.ContainsRune(" \n\t\r()", rune(src[j])) {
				j++
			}
			a := src[i:j]
			i = j
			return &sexp{atom: a}
		}
	}
	for i < len(src) {
		skip()
		if i >= len(src) {
			break
		}
		n := parse()
		if n != nil {
			out = append(out, n)
		}
	}
	return out
}

// parseModel extracts nullary (define-fun name () Sort value) entries.
func parseModel(out string) map[string]*sexp {
	m := map[string]*sexp{}
	var walk func(n *sexp)
	walk = func(n *sexp) {
		if n == nil || !n.isL {
			return
		}
		if len(n.list) >= 5 && n.list[0].atom == "define-fun" {
			m[n.list[1].atom] = n
			return
		}
		for _, c := range n.list {
			walk(c)
		}
	}
	for _, n := range parseSexps(out) {
		walk(n)
	}
	return m
}

func modelSummary(m map[string]*sexp) map[string]string {
	out := map[string]string{}
	for k, n := range m {
		if (strings.HasPrefix(k, "|p ") || strings.HasPrefix(k, "p ")) && len(n.list[2].list) == 0 {
			v := n.list[4].String()
			if len(v) > 400 {
				v = v[:400] + "..."
			}
			out[k] = v
		}
	}
	return out
}

func runAdapter(x *Exec, prop string, ob *Obligation, in *Instance, model map[string]*sexp) (bool, string, string) {
	return false, "no replay adapter for " + in.Check.Fn, ""
}

func cmdReplay(prop, path string) int {
	fmt.Println("replay of", path, "not implemented yet")
	return 2
}
