package main

import (
	"bytes"
	"context"
	"encoding/json"
	"fmt"
	"os"
	"os/exec"
	"path/filepath"
	"strconv"
	"strings"
	"time"

	"golang.org/x/tools/go/ssa"
)

// ---------------------------------------------------------------------------
// S-expressions (solver models)

type sexp struct {
	atom string
	list []*sexp
	isL  bool
}

func (s *sexp) String() string {
	if !s.isL {
		return s.atom
	}
	var parts []string
	for _, c := range s.list {
		parts = append(parts, c.String())
	}
	return "(" + strings.Join(parts, " ") + ")"
}

func parseSexps(src string) []*sexp {
	var out []*sexp
	i := 0
	var parse func() *sexp
	skip := func() {
		for i < len(src) {
			c := src[i]
			if c == ' ' || c == '\n' || c == '\t' || c == '\r' {
				i++
			} else if c == ';' {
				for i < len(src) && src[i] != '\n' {
					i++
				}
			} else {
				break
			}
		}
	}
	parse = func() *sexp {
		skip()
		if i >= len(src) {
			return nil
		}
		switch src[i] {
		case '(':
			i++
			n := &sexp{isL: true}
			for {
				skip()
				if i >= len(src) {
					return n
				}
				if src[i] == ')' {
					i++
					return n
				}
				c := parse()
				if c == nil {
					return n
				}
				n.list = append(n.list, c)
			}
		case ')':
			i++
			return nil
		case '|':
			j := i + 1
			for j < len(src) && src[j] != '|' {
				j++
			}
			a := src[i:min(j+1, len(src))]
			i = j + 1
			return &sexp{atom: a}
		case '"':
			j := i + 1
			for j < len(src) {
				if src[j] == '"' {
					if j+1 < len(src) && src[j+1] == '"' {
						j += 2
						continue
					}
					break
				}
				j++
			}
			a := src[i:min(j+1, len(src))]
			i = j + 1
			return &sexp{atom: a}
		default:
			j := i
			for j < len(src) && !strings.ContainsRune(" \n\t\r()", rune(src[j])) {
				j++
			}
			a := src[i:j]
			i = j
			return &sexp{atom: a}
		}
	}
	for i < len(src) {
		skip()
		if i >= len(src) {
			break
		}
		n := parse()
		if n != nil {
			out = append(out, n)
		}
	}
	return out
}

// parseModel extracts nullary (define-fun name () Sort value) entries.
func parseModel(out string) map[string]*sexp {
	m := map[string]*sexp{}
	var walk func(n *sexp)
	walk = func(n *sexp) {
		if n == nil || !n.isL {
			return
		}
		if len(n.list) >= 5 && n.list[0].atom == "define-fun" {
			m[n.list[1].atom] = n
			return
		}
		for _, c := range n.list {
			walk(c)
		}
	}
	for _, n := range parseSexps(out) {
		walk(n)
	}
	return m
}

func modelSummary(m map[string]*sexp) map[string]string {
	out := map[string]string{}
	for k, n := range m {
		if (strings.HasPrefix(k, "|p ") || strings.HasPrefix(k, "p ")) && len(n.list[2].list) == 0 {
			v := n.list[4].String()
			if len(v) > 400 {
				v = v[:400] + "..."
			}
			out[k] = v
		}
	}
	return out
}

// ---------------------------------------------------------------------------
// Replay adapters: /verif/replay_adapters/*.go.tmpl
//
//   //replay:func  <display name of the function under contract>
//   //replay:pkg   <package dir relative to /repo>
//   //replay:value <name> = <contract expression over the function's parameters (entry state)>
//   //replay:bytes <name> = <[]byte-typed contract expression>
//
// The rest of the file is an in-package Go test (TestVerifReplay) that reads the
// model values from the JSON file named by $VERIF_REPLAY_MODEL, builds concrete
// inputs, runs the REAL function and fails iff the property's oracle is violated.

type adapter struct {
	path   string
	fn     string
	pkg    string
	values []adapterValue
	source string
}

type adapterValue struct {
	name  string
	expr  string
	bytes bool
}

func loadAdapters() []*adapter {
	files, _ := filepath.Glob(filepath.Join(verifDir, "replay_adapters", "*.go.tmpl"))
	var out []*adapter
	for _, f := range files {
		data, err := os.ReadFile(f)
		if err != nil {
			continue
		}
		a := &adapter{path: f, source: string(data)}
		for _, line := range strings.Split(string(data), "\n") {
			l := strings.TrimSpace(line)
			switch {
			case strings.HasPrefix(l, "//replay:func "):
				a.fn = strings.TrimSpace(l[len("//replay:func "):])
			case strings.HasPrefix(l, "//replay:pkg "):
				a.pkg = strings.TrimSpace(l[len("//replay:pkg "):])
			case strings.HasPrefix(l, "//replay:value "), strings.HasPrefix(l, "//replay:bytes "):
				rest := strings.TrimSpace(l[len("//replay:value "):])
				i := strings.IndexByte(rest, '=')
				if i > 0 {
					a.values = append(a.values, adapterValue{name: strings.TrimSpace(rest[:i]), expr: strings.TrimSpace(rest[i+1:]), bytes: strings.HasPrefix(l, "//replay:bytes ")})
				}
			}
		}
		if a.fn != "" && a.pkg != "" {
			out = append(out, a)
		}
	}
	return out
}

type fnInfo struct {
	fn       *ssa.Function
	pre      *State
	env      map[string]SV
	contract *Contract
}

func smtValueToGo(n *sexp) interface{} {
	if n == nil {
		return nil
	}
	if !n.isL {
		a := n.atom
		switch {
		case a == "true":
			return true
		case a == "false":
			return false
		case strings.HasPrefix(a, "\""):
			return smtUnescape(a)
		}
		return a
	}
	if len(n.list) == 2 && !n.list[0].isL && n.list[0].atom == "-" {
		if v, ok := smtValueToGo(n.list[1]).(string); ok {
			return "-" + v
		}
	}
	return n.String()
}

func smtUnescape(lit string) string {
	s := lit[1 : len(lit)-1]
	s = strings.ReplaceAll(s, `""`, `"`)
	var b []byte
	for i := 0; i < len(s); {
		if strings.HasPrefix(s[i:], `\u{`) {
			j := strings.IndexByte(s[i:], '}')
			if j > 0 {
				v, err := strconv.ParseUint(s[i+3:i+j], 16, 32)
				if err == nil && v < 256 {
					b = append(b, byte(v))
					i += j + 1
					continue
				}
			}
		}
		b = append(b, s[i])
		i++
	}
	// the test side receives bytes as a JSON array to stay 8-bit clean
	return string(b)
}

// replayTyping: type-range facts of the adapter's input values; they are asserted when the model is
// queried, so that inputs the failing path never looked at still get values of their Go type.
var replayTyping []T

func queryValues(c *Check, terms []T) (map[string]*sexp, string) {
	script := c.Script(20000, false)
	script = strings.Replace(script, "(get-model)\n", "", 1)
	if len(replayTyping) > 0 {
		var tf strings.Builder
		for _, f := range replayTyping {
			tf.WriteString("(assert " + f.S + ")\n")
		}
		script = strings.Replace(script, "(check-sat)\n", tf.String()+"(check-sat)\n", 1)
	}
	var b strings.Builder
	b.WriteString(script)
	b.WriteString("(get-value (")
	for _, t := range terms {
		b.WriteString(t.S)
		b.WriteByte(' ')
	}
	b.WriteString("))\n")
	// declarations for symbols only used in the value terms
	extra := map[string]bool{}
	for _, t := range terms {
		collectSymbols(t.S, extra)
	}
	pre := ""
	have := map[string]bool{}
	collectSymbols(script, have)
	for s := range extra {
		if si, ok := symbols[s]; ok && !have[s] && !strings.Contains(script, si.decl) {
			pre += si.decl + "\n"
		}
	}
	full := b.String()
	if pre != "" {
		// insert after the sort prelude: before the first (assert
		if i := strings.Index(full, "(assert"); i >= 0 {
			full = full[:i] + pre + full[i:]
		}
	}
	os.WriteFile(filepath.Join(verifDir, ".work", "replay_query.smt2"), []byte(full), 0o644)
	ctx, cancel := context.WithTimeout(context.Background(), 30*time.Second)
	defer cancel()
	cmd := exec.CommandContext(ctx, "z3-new", "-in", "-smt2")
	cmd.Stdin = strings.NewReader(full)
	var out bytes.Buffer
	cmd.Stdout = &out
	cmd.Stderr = &out
	_ = cmd.Run()
	o := out.String()
	res := map[string]*sexp{}
	lines := strings.SplitN(strings.TrimSpace(o), "\n", 2)
	if len(lines) < 2 || strings.TrimSpace(lines[0]) != "sat" {
		return res, o
	}
	ps := parseSexps(lines[1])
	if len(ps) == 0 || !ps[0].isL {
		return res, o
	}
	for i, pair := range ps[0].list {
		if pair.isL && len(pair.list) == 2 && i < len(terms) {
			res[terms[i].S] = pair.list[1]
		}
	}
	return res, o
}

func runAdapter(x *Exec, prop string, ob *Obligation, in *Instance, model map[string]*sexp) (bool, string, string, map[string]interface{}) {
	fnName := funcDisplayNameFromString(in.Check.Fn)
	var ad *adapter
	for _, a := range loadAdapters() {
		if a.fn == fnName {
			ad = a
		}
	}
	if ad == nil {
		return false, "no replay adapter for " + fnName, "", nil
	}
	info := x.fnInfos[in.Check.Fn]
	if info == nil {
		return false, "no entry-state information for " + fnName, ad.path, nil
	}
	values := map[string]interface{}{}
	var out strings.Builder
	func() {
		defer func() {
			if r := recover(); r != nil {
				fmt.Fprintf(&out, "adapter expression error: %v\n", r)
			}
		}()
		ctx := x.ctxFor(info.contract, info.pre, info.pre, info.env, info.fn)
		var terms []T
		var names []string
		type pending struct {
			name string
			arr  T
			off  T
			ln   T
		}
		var bytesReq []pending
		for _, v := range ad.values {
			e, err := parseExpr(v.expr)
			if err != nil {
				fmt.Fprintf(&out, "adapter value %s: %v\n", v.name, err)
				continue
			}
			sv := ctx.eval(e)
			t := ctx.value(sv)
			if v.bytes {
				if t.Sort != SSlice {
					fmt.Fprintf(&out, "adapter bytes %s is not a slice\n", v.name)
					continue
				}
				elT := sv.typ.Underlying().(interface{ Elem() interface{} })
				_ = elT
				bytesReq = append(bytesReq, pending{v.name, sliceArr(t), sliceOff(t), sliceLen(t)})
				terms = append(terms, sliceLen(t))
				names = append(names, v.name+".len")
				continue
			}
			terms = append(terms, t)
			names = append(names, v.name)
			if sv.typ != nil {
				if f := typingFact(sv.typ, t); f.S != "true" {
					replayTyping = append(replayTyping, f)
				}
			} else {
				fmt.Fprintf(&out, "adapter value %s has no Go type: its range is not constrained\n", v.name)
			}
		}
		defer func() { replayTyping = nil }()
		vals, raw := queryValues(in.Check, terms)
		if len(vals) == 0 {
			fmt.Fprintf(&out, "could not obtain values from the solver: %s\n", firstLines(raw, 5))
			return
		}
		for i, t := range terms {
			values[names[i]] = smtValueToGo(vals[t.S])
		}
		// byte contents (bounded)
		for _, br := range bytesReq {
			n := 0
			if s, ok := values[br.name+".len"].(string); ok {
				n, _ = strconv.Atoi(s)
			}
			if n > 4096 {
				n = 4096
				values[br.name+".truncated"] = true
			}
			var ts []T
			h := info.pre.arrHeap(byteType())
			for j := 0; j < n; j++ {
				ts = append(ts, sel(sel(h, br.arr), app(SInt, "+", br.off, mkInt(int64(j)))))
			}
			bs := make([]int, n)
			if n > 0 {
				bv, _ := queryValues(in.Check, append(terms, ts...))
				for j, t := range ts {
					if s, ok := smtValueToGo(bv[t.S]).(string); ok {
						bs[j], _ = strconv.Atoi(s)
					}
				}
			}
			values[br.name] = bs
		}
	}()
	if len(values) == 0 {
		return false, out.String(), ad.path, values
	}
	ok, testOut := runReplayTest(ad, values)
	out.WriteString(testOut)
	return ok, out.String(), ad.path, values
}

func firstLines(s string, n int) string {
	l := strings.Split(s, "\n")
	if len(l) > n {
		l = l[:n]
	}
	return strings.Join(l, "\n")
}

func funcDisplayNameFromString(s string) string {
	return strings.ReplaceAll(s, repoPrefix, "")
}

// runReplayTest injects the adapter as an in-package test (go test -overlay)
// and runs it on the real code. reproduced = the test FAILED.
func runReplayTest(ad *adapter, values map[string]interface{}) (bool, string) {
	work := filepath.Join(verifDir, ".work", fmt.Sprintf("replay-%d", os.Getpid()))
	os.MkdirAll(work, 0o755)
	defer os.RemoveAll(work)
	modelPath := filepath.Join(work, "model.json")
	data, _ := json.MarshalIndent(values, "", " ")
	os.WriteFile(modelPath, data, 0o644)
	testPath := filepath.Join(work, "zz_verif_replay_test.go")
	os.WriteFile(testPath, []byte(ad.source), 0o644)
	ov := map[string]map[string]string{"Replace": {filepath.Join(repoDir, ad.pkg, "zz_verif_replay_test.go"): testPath}}
	ovData, _ := json.Marshal(ov)
	ovPath := filepath.Join(work, "overlay.json")
	os.WriteFile(ovPath, ovData, 0o644)
	ctx, cancel := context.WithTimeout(context.Background(), 180*time.Second)
	defer cancel()
	cmd := exec.CommandContext(ctx, "go", "test", "-overlay", ovPath, "-vet=off", "-count=1", "-timeout", "60s", "-run", "^TestVerifReplay$", "./"+ad.pkg)
	cmd.Dir = repoDir
	cmd.Env = append(os.Environ(), "GOFLAGS=-mod=mod", "GOPROXY=off", "GOSUMDB=off", "GOTOOLCHAIN=local", "VERIF_REPLAY_MODEL="+modelPath)
	var outb bytes.Buffer
	cmd.Stdout = &outb
	cmd.Stderr = &outb
	err := cmd.Run()
	o := outb.String()
	if len(o) > 6000 {
		o = o[:6000] + "\n...[truncated]"
	}
	if err == nil {
		return false, "replay test PASSED on the real code (input does not violate the oracle):\n" + o
	}
	if strings.Contains(o, "--- FAIL: TestVerifReplay") || strings.Contains(o, "panic:") {
		return true, "replay test FAILED on the real code (violation reproduced):\n" + o
	}
	return false, "replay test could not be run: " + err.Error() + "\n" + o
}

func cmdReplay(prop, path string) int {
	data, err := os.ReadFile(path)
	if err != nil {
		fmt.Println("cannot read replay file:", err)
		return 2
	}
	var rec map[string]interface{}
	if err := json.Unmarshal(data, &rec); err != nil {
		fmt.Println("bad replay file:", err)
		return 2
	}
	adPath, _ := rec["replay_adapter"].(string)
	vals, _ := rec["model_values"].(map[string]interface{})
	fmt.Printf("obligation: %v\nfunction: %v\nsolver: %v (%v)\n", rec["obligation"], rec["function"], rec["solver"], rec["status"])
	if adPath == "" || vals == nil {
		fmt.Println("no concrete input in this replay file (no-failing-input-found); solver output follows")
		fmt.Println(rec["solver_output"])
		return 1
	}
	var ad *adapter
	for _, a := range loadAdapters() {
		if a.path == adPath {
			ad = a
		}
	}
	if ad == nil {
		fmt.Println("adapter not found:", adPath)
		return 2
	}
	ok, out := runReplayTest(ad, vals)
	fmt.Println(out)
	if ok {
		fmt.Printf("VIOLATION property=%s replay=%s\n", prop, path)
		return 1
	}
	return 0
}
