package main

import (
	"fmt"
	"go/types"
	"os"
	"path/filepath"
	"sort"
	"strings"

	"golang.org/x/tools/go/packages"
	"golang.org/x/tools/go/ssa"
	"golang.org/x/tools/go/ssa/ssautil"
)

var repoDir = repoDirFromEnv()

func repoDirFromEnv() string {
	if d := os.Getenv("VERIF_REPO"); d != "" {
		return d // scratch copies used by the seeded-change / self-test tools only
	}
	return "/repo"
}
const modulePath = "github.com/theparanoids/ysshra"

func loadProgram(patterns []string) (*Exec, error) {
	cfg := &packages.Config{
		Mode:       packages.LoadAllSyntax,
		Dir:        repoDir,
		BuildFlags: []string{"-tags=verif"},
		Env:        append(os.Environ(), "GOFLAGS=-mod=mod", "GOPROXY=off", "GOSUMDB=off", "GOTOOLCHAIN=local"),
	}
	pkgs, err := packages.Load(cfg, patterns...)
	if err != nil {
		return nil, err
	}
	var errs []string
	packages.Visit(pkgs, nil, func(p *packages.Package) {
		if strings.HasPrefix(p.PkgPath, modulePath) {
			for _, e := range p.Errors {
				errs = append(errs, e.Error())
			}
		}
	})
	if len(errs) > 0 {
		return nil, fmt.Errorf("load errors: %s", strings.Join(errs, "; "))
	}
	prog, spkgs := ssautil.Packages(pkgs, ssa.NaiveForm|ssa.GlobalDebug|ssa.InstantiateGenerics)
	for _, p := range spkgs {
		if p != nil {
			p.Build()
		}
	}
	x := &Exec{
		prog: prog, pkgs: map[string]*packages.Package{}, ssaPkgs: map[string]*ssa.Package{},
		specs: map[string]*SpecFile{}, contracts: map[string]*Contract{}, ghosts: map[string]*GhostFunc{},
		notes: map[string]bool{}, used: map[string]bool{}, maxPaths: 20000, variants: map[string][]*Contract{}, funcVals: map[string]*ssa.Function{}, ghostFields: map[string]*GhostField{}, definingGhost: map[string]bool{}, fnInfos: map[string]*fnInfo{}, immutableFields: map[string]bool{}, protected: map[string]Protected{}, loopFrameHeaps: map[*ssa.BasicBlock][]string{}, loopsOf: map[*ssa.Function]*loopInfo{},
	}
	packages.Visit(pkgs, nil, func(p *packages.Package) {
		x.pkgs[p.PkgPath] = p
	})
	for _, p := range prog.AllPackages() {
		x.ssaPkgs[p.Pkg.Path()] = p
	}
	if len(pkgs) > 0 {
		x.fset = pkgs[0].Fset
	}
	return x, nil
}

// loadSpecs reads the in-repo contract files and the external specs.
func (x *Exec) loadSpecs(extDir string) error {
	files, err := findRepoSpecFiles(repoDir)
	if err != nil {
		return err
	}
	sort.Strings(files)
	for _, f := range files {
		rel, _ := filepath.Rel(repoDir, filepath.Dir(f))
		pkgPath := modulePath
		if rel != "." {
			pkgPath = modulePath + "/" + filepath.ToSlash(rel)
		}
		sf, err := readSpecFile(f, pkgPath)
		if err != nil {
			return err
		}
		x.specs[pkgPath] = sf
		x.registerSpec(sf)
	}
	exts, _ := filepath.Glob(filepath.Join(extDir, "*.spec"))
	sort.Strings(exts)
	for _, f := range exts {
		sf, err := readSpecFile(f, "")
		if err != nil {
			return err
		}
		for _, c := range sf.Contracts {
			c.External = true
		}
		x.extSpecs = append(x.extSpecs, sf)
		x.registerSpec(sf)
	}
	return nil
}

func (x *Exec) registerSpec(sf *SpecFile) {
	for _, c := range sf.Contracts {
		c.SF = sf
		key := contractKey(c.Target, sf.Pkg)
		key = x.expandAlias(key, sf)
		if c.When != nil {
			x.variants[key] = append(x.variants[key], c)
			continue
		}
		if old, dup := x.contracts[key]; dup {
			panic(fmt.Errorf("duplicate contract for %s (%s:%d and %s:%d)", key, old.File, old.Line, c.File, c.Line))
		}
		x.contracts[key] = c
	}
	for _, g := range sf.GhostFields {
		x.ghostFields[g.Name] = g
	}
	for _, pr := range sf.Protected {
		x.protected[sf.Pkg+"."+pr.Field] = pr
	}
	for _, im := range sf.Immutable {
		x.immutableFields[sf.Pkg+"."+im] = true
	}
	for _, oa := range sf.OnAllocs {
		if x.onAllocs == nil {
			x.onAllocs = map[string]*OnAlloc{}
		}
		x.onAllocs[sf.Pkg+"."+oa.Type] = oa
	}
	for _, oi := range sf.ObjInvs {
		if x.objInvs == nil {
			x.objInvs = map[string]*ObjInv{}
		}
		x.objInvs[sf.Pkg+"."+oi.Type] = oi
	}
	for _, g := range sf.Ghosts {
		g.SF = sf
		x.ghosts[sf.Pkg+"::"+g.Name] = g
		if _, ok := x.ghosts["::"+g.Name]; !ok {
			x.ghosts["::"+g.Name] = g
		}
	}
}

// expandAlias rewrites a leading import alias in a contract key
// (e.g. "(agent.Agent).List" -> "(golang.org/x/crypto/ssh/agent.Agent).List").
func (x *Exec) expandAlias(key string, sf *SpecFile) string {
	for alias, path := range sf.Imports {
		for _, pre := range []string{"(*", "(", ""} {
			p := pre + alias + "."
			if strings.HasPrefix(key, p) {
				return pre + path + "." + key[len(p):]
			}
		}
	}
	return key
}

func (x *Exec) typesPkg(path string) *types.Package {
	if p, ok := x.pkgs[path]; ok {
		return p.Types
	}
	return nil
}

func (x *Exec) globalFor(v *types.Var) *ssa.Global {
	if v.Pkg() == nil {
		return nil
	}
	sp := x.ssaPkgs[v.Pkg().Path()]
	if sp == nil {
		return nil
	}
	g, _ := sp.Members[v.Name()].(*ssa.Global)
	return g
}

// resolvePkg finds a package by import alias / name as seen from pkg.
func (x *Exec) resolvePkg(name string, pkg *types.Package, sf *SpecFile) *types.Package {
	if sf != nil {
		if p, ok := sf.Imports[name]; ok {
			return x.typesPkg(p)
		}
	}
	for _, ext := range x.extSpecs {
		if sf == ext {
			continue
		}
	}
	if pkg != nil {
		for _, imp := range pkg.Imports() {
			if imp.Name() == name {
				return imp
			}
		}
		// import aliases used in the package's files
		if pp, ok := x.pkgs[pkg.Path()]; ok {
			for _, f := range pp.Syntax {
				for _, is := range f.Imports {
					if is.Name != nil && is.Name.Name == name {
						path := strings.Trim(is.Path.Value, `"`)
						return x.typesPkg(path)
					}
				}
			}
		}
	}
	if p, ok := x.pkgs[name]; ok && p.Types != nil {
		return p.Types
	}
	// unique package with that name anywhere
	var found *types.Package
	for _, p := range x.pkgs {
		if p.Types != nil && p.Types.Name() == name {
			if found != nil && found != p.Types {
				return nil
			}
			found = p.Types
		}
	}
	return found
}

func (x *Exec) resolveType(te *TypeExpr, pkg *types.Package, sf *SpecFile) types.Type {
	switch {
	case te.Ptr != nil:
		return types.NewPointer(x.resolveType(te.Ptr, pkg, sf))
	case te.Slice != nil:
		return types.NewSlice(x.resolveType(te.Slice, pkg, sf))
	case te.MapK != nil:
		return types.NewMap(x.resolveType(te.MapK, pkg, sf), x.resolveType(te.MapV, pkg, sf))
	case te.Empty:
		return types.NewInterfaceType(nil, nil)
	}
	if te.Pkg != "" {
		p := x.resolvePkg(te.Pkg, pkg, sf)
		if p == nil {
			sfail("unknown package %q in type %s", te.Pkg, te)
		}
		obj := p.Scope().Lookup(te.Name)
		if tn, ok := obj.(*types.TypeName); ok {
			return tn.Type()
		}
		sfail("unknown type %s", te)
	}
	if obj := types.Universe.Lookup(te.Name); obj != nil {
		if tn, ok := obj.(*types.TypeName); ok {
			return tn.Type()
		}
	}
	if pkg != nil {
		if tn, ok := pkg.Scope().Lookup(te.Name).(*types.TypeName); ok {
			return tn.Type()
		}
	}
	sfail("unknown type %s", te)
	return nil
}

// ghostSort maps a type name used in ghost declarations to an SMT sort.
func (x *Exec) ghostSort(name string, pkg *types.Package, sf *SpecFile) (string, types.Type) {
	switch name {
	case "int":
		return SInt, types.Typ[types.Int]
	case "bool":
		return SBool, types.Typ[types.Bool]
	case "string":
		return SString, types.Typ[types.String]
	case "ref":
		return SInt, nil
	case "bytes":
		return arraySort(SInt, SInt), nil
	case "real":
		return SReal, nil
	case "strs":
		return arraySort(SInt, SString), nil
	case "intset":
		return arraySort(SInt, SBool), nil
	case "strset":
		return arraySort(SString, SBool), nil
	case "iface", "any":
		return SIface, types.NewInterfaceType(nil, nil)
	case "error":
		return SIface, types.Universe.Lookup("error").Type()
	}
	toks, err := lex(name)
	if err != nil {
		sfail("bad ghost type %q", name)
	}
	p := &parser{toks: toks, src: name}
	te := p.parseType()
	ty := x.resolveType(te, pkg, sf)
	return sortOf(ty), ty
}

func (x *Exec) lookupGhost(name string, pkg *types.Package, sf *SpecFile) *GhostFunc {
	if i := strings.IndexByte(name, '.'); i > 0 {
		// pkg.ghost
		p := x.resolvePkg(name[:i], pkg, sf)
		if p != nil {
			if g, ok := x.ghosts[p.Path()+"::"+name[i+1:]]; ok {
				return g
			}
		}
		return nil
	}
	if pkg != nil {
		if g, ok := x.ghosts[pkg.Path()+"::"+name]; ok {
			return g
		}
	}
	if sf != nil {
		if g, ok := x.ghosts[sf.Pkg+"::"+name]; ok {
			return g
		}
	}
	if g, ok := x.ghosts["::"+name]; ok {
		return g
	}
	return nil
}

// findFunction resolves a function by its display name
// (e.g. "sshutils/cert.GetType", "(*agent/shimagent.Server).List").
func (x *Exec) findFunction(name string) *ssa.Function {
	full := name
	if strings.HasPrefix(name, "(*") {
		full = "(*" + repoPrefix + name[2:]
	} else if strings.HasPrefix(name, "(") {
		full = "(" + repoPrefix + name[1:]
	} else {
		full = repoPrefix + name
	}
	for _, p := range x.prog.AllPackages() {
		if !strings.HasPrefix(p.Pkg.Path(), modulePath) {
			continue
		}
		for _, m := range p.Members {
			switch v := m.(type) {
			case *ssa.Function:
				if f := matchFunc(v, full); f != nil {
					return f
				}
			case *ssa.Type:
				for _, t := range []types.Type{v.Type(), types.NewPointer(v.Type())} {
					ms := x.prog.MethodSets.MethodSet(t)
					for i := 0; i < ms.Len(); i++ {
						if f := x.prog.MethodValue(ms.At(i)); f != nil {
							if g := matchFunc(f, full); g != nil {
								return g
							}
						}
					}
				}
			}
		}
	}
	return nil
}

func matchFunc(f *ssa.Function, full string) *ssa.Function {
	if f.String() == full {
		return f
	}
	for _, a := range f.AnonFuncs {
		if g := matchFunc(a, full); g != nil {
			return g
		}
	}
	return nil
}

// funcByName finds a function (or anonymous function such as init$1) of a package.
func (x *Exec) funcByName(pkgPath, name string) *ssa.Function {
	sp := x.ssaPkgs[pkgPath]
	if sp == nil {
		return nil
	}
	var found *ssa.Function
	var walk func(f *ssa.Function)
	walk = func(f *ssa.Function) {
		if f.Name() == name {
			found = f
		}
		for _, a := range f.AnonFuncs {
			walk(a)
		}
	}
	for _, m := range sp.Members {
		if f, ok := m.(*ssa.Function); ok {
			walk(f)
		}
	}
	return found
}

func byteType() types.Type { return types.Typ[types.Uint8] }
