package main

import (
	"fmt"
	"math/big"
	"os"
	"path/filepath"
	"strconv"
	"strings"
)

// ---------------------------------------------------------------------------
// Contract AST

type Expr interface{}

type (
	EIdent  struct{ Name string }
	EInt    struct{ V *big.Int }
	EStr    struct{ V string }
	EBool   struct{ V bool }
	ENil    struct{}
	EUnary  struct {
		Op string
		X  Expr
	}
	EBinary struct {
		Op   string
		X, Y Expr
	}
	ECall struct {
		Fun  string
		Args []Expr
	}
	EIndex struct{ X, I Expr }
	ESlice struct{ X, Lo, Hi Expr }
	ESel   struct {
		X    Expr
		Name string
	}
	EAssert struct {
		X Expr
		T *TypeExpr
	}
	ESet  struct{ Elems []Expr }
	EType struct{ T *TypeExpr }
	ECond struct{ C, A, B Expr }
)

type TypeExpr struct {
	Ptr    *TypeExpr
	Slice  *TypeExpr
	MapK   *TypeExpr
	MapV   *TypeExpr
	Empty  bool // interface{}
	Pkg    string
	Name   string
}

func (t *TypeExpr) String() string {
	switch {
	case t.Ptr != nil:
		return "*" + t.Ptr.String()
	case t.Slice != nil:
		return "[]" + t.Slice.String()
	case t.MapK != nil:
		return "map[" + t.MapK.String() + "]" + t.MapV.String()
	case t.Empty:
		return "interface{}"
	case t.Pkg != "":
		return t.Pkg + "." + t.Name
	}
	return t.Name
}

// Contract of one function / interface method.
type Contract struct {
	SF        *SpecFile
	Target    string // as written: GetType, (*Server).List, pkg/path.Func
	Pkg       string // package path this contract file belongs to ("" for external)
	Params    []string
	Interface bool
	Requires  []Clause
	Ensures   []Clause
	Modifies  []Expr
	ModAll    bool
	HasMod    bool
	Lets      []Let
	Loops     map[int]*LoopSpec
	Flags     map[string]bool
	FlagArgs  map[string][]string
	Asserts   []Clause
	When      *Clause
	File      string
	Line      int
	External  bool
}

type Let struct {
	Name string
	E    Expr
}

type Clause struct {
	E    Expr
	Text string
	Name string // optional label
	Line int
}

type LoopSpec struct {
	Invariants []Clause
	Modifies   []Expr
	Flags      map[string]bool
}

type GhostFunc struct {
	SF     *SpecFile
	Pure   bool
	Name   string
	Params []GhostParam
	Result string // sort spec (Go-ish type name)
	Body   Expr   // optional definition
	Pkg    string
}

type GhostParam struct {
	Name string
	Type string
}

type Lemma struct {
	Name  string
	E     Expr
	Vars  []GhostParam
	Axiom bool
	Pkg   string
	Text  string
}

type TablePin struct {
	Var  string
	Text string
	E    Expr
	Pkg  string
	Line int
}

type GhostField struct {
	Name string
	Type string
	Pkg  string
}

type Protected struct {
	Field     string // T.f
	Mu        string // T.mu
	Exclusive bool
}

// ObjInv is an object invariant over immutable fields, established by the only constructor of the type.
type ObjInv struct {
	Type   string   // struct type name (in the spec file's package)
	Var    string   // name of the object in the expression
	Ctor   string   // constructor function (same package)
	Fields []string // "T.f" fields the invariant reads (all must be immutable)
	Text   string
	E      Expr
	Line   int
	Pkg    string
	SF     *SpecFile
	added  bool
}

// OnAlloc is a fact assumed about an object of a struct type when it leaves the function that
// allocated it (boxed into an interface, stored, or passed on): the definition of a ghost attribute
// of the object in terms of the fields it was built with.
type OnAlloc struct {
	Type string
	Var  string
	Text string
	E    Expr
	Line int
	Pkg  string
	SF   *SpecFile
}

type SpecFile struct {
	OnAllocs    []*OnAlloc
	ObjInvs     []*ObjInv
	Protected   []Protected
	Immutable   []string // "T.f" fields never written after construction
	GhostFields []*GhostField
	Path      string
	Pkg       string
	Imports   map[string]string
	Contracts []*Contract
	Ghosts    []*GhostFunc
	Lemmas    []*Lemma
	Tables    []*TablePin
}

// ---------------------------------------------------------------------------
// Lexer

type tokKind int

const (
	tEOF tokKind = iota
	tIdent
	tInt
	tStr
	tOp
)

type stok struct {
	k   tokKind
	s   string
	pos int
}

func lex(src string) ([]stok, error) {
	var toks []stok
	i := 0
	for i < len(src) {
		c := src[i]
		switch {
		case c == ' ' || c == '\t' || c == '\n' || c == '\r':
			i++
		case c >= '0' && c <= '9':
			j := i
			if c == '0' && j+1 < len(src) && (src[j+1] == 'x' || src[j+1] == 'X') {
				j += 2
				for j < len(src) && isHex(src[j]) {
					j++
				}
			} else {
				for j < len(src) && (src[j] >= '0' && src[j] <= '9' || src[j] == '_') {
					j++
				}
			}
			toks = append(toks, stok{tInt, src[i:j], i})
			i = j
		case c == '_' || c >= 'a' && c <= 'z' || c >= 'A' && c <= 'Z':
			j := i
			for j < len(src) && (src[j] == '_' || src[j] == '$' || src[j] == '#' || src[j] >= 'a' && src[j] <= 'z' || src[j] >= 'A' && src[j] <= 'Z' || src[j] >= '0' && src[j] <= '9') {
				j++
			}
			toks = append(toks, stok{tIdent, src[i:j], i})
			i = j
		case c == '"':
			j := i + 1
			for j < len(src) && src[j] != '"' {
				if src[j] == '\\' {
					j++
				}
				j++
			}
			if j >= len(src) {
				return nil, fmt.Errorf("unterminated string at %d", i)
			}
			s, err := strconv.Unquote(src[i : j+1])
			if err != nil {
				return nil, fmt.Errorf("bad string %s: %v", src[i:j+1], err)
			}
			toks = append(toks, stok{tStr, s, i})
			i = j + 1
		case c == '\'':
			j := i + 1
			for j < len(src) && src[j] != '\'' {
				if src[j] == '\\' {
					j++
				}
				j++
			}
			r, _, _, err := strconv.UnquoteChar(src[i+1:j], '\'')
			if err != nil {
				return nil, fmt.Errorf("bad char literal: %v", err)
			}
			toks = append(toks, stok{tInt, strconv.Itoa(int(r)), i})
			i = j + 1
		default:
			ops := []string{"<==>", "==>", "==", "!=", "<=", ">=", "&&", "||", "<<", ">>", "[]", ":="}
			matched := false
			for _, op := range ops {
				if strings.HasPrefix(src[i:], op) {
					toks = append(toks, stok{tOp, op, i})
					i += len(op)
					matched = true
					break
				}
			}
			if !matched {
				if strings.ContainsRune("+-*/%<>!()[]{}.,:=&|^?@;", rune(c)) {
					toks = append(toks, stok{tOp, string(c), i})
					i++
				} else {
					return nil, fmt.Errorf("unexpected character %q at %d in %q", c, i, src)
				}
			}
		}
	}
	toks = append(toks, stok{tEOF, "", len(src)})
	return toks, nil
}

func isHex(c byte) bool {
	return c >= '0' && c <= '9' || c >= 'a' && c <= 'f' || c >= 'A' && c <= 'F' || c == '_'
}

// ---------------------------------------------------------------------------
// Parser

type parser struct {
	toks []stok
	p    int
	src  string
}

func (p *parser) peek() stok { return p.toks[p.p] }
func (p *parser) next() stok { t := p.toks[p.p]; p.p++; return t }
func (p *parser) isOp(s string) bool {
	t := p.peek()
	return t.k == tOp && t.s == s
}
func (p *parser) accept(s string) bool {
	if p.isOp(s) {
		p.p++
		return true
	}
	return false
}
func (p *parser) expect(s string) {
	if !p.accept(s) {
		panic(fmt.Errorf("expected %q at %d in %q (got %q)", s, p.peek().pos, p.src, p.peek().s))
	}
}

func parseExpr(src string) (e Expr, err error) {
	defer func() {
		if r := recover(); r != nil {
			if er, ok := r.(error); ok {
				err = er
				return
			}
			panic(r)
		}
	}()
	toks, err := lex(src)
	if err != nil {
		return nil, err
	}
	p := &parser{toks: toks, src: src}
	e = p.parseIff()
	if p.peek().k != tEOF {
		return nil, fmt.Errorf("trailing input at %d in %q", p.peek().pos, src)
	}
	return e, nil
}

func (p *parser) parseIff() Expr {
	x := p.parseImp()
	for p.isOp("<==>") {
		p.next()
		y := p.parseImp()
		x = &EBinary{"<==>", x, y}
	}
	return x
}

func (p *parser) parseImp() Expr {
	x := p.parseCond()
	if p.isOp("==>") {
		p.next()
		y := p.parseImp()
		return &EBinary{"==>", x, y}
	}
	return x
}

func (p *parser) parseCond() Expr {
	x := p.parseOr()
	if p.accept("?") {
		a := p.parseCond()
		p.expect(":")
		b := p.parseCond()
		return &ECond{x, a, b}
	}
	return x
}

func (p *parser) parseOr() Expr {
	x := p.parseAnd()
	for p.isOp("||") {
		p.next()
		x = &EBinary{"||", x, p.parseAnd()}
	}
	return x
}

func (p *parser) parseAnd() Expr {
	x := p.parseCmp()
	for p.isOp("&&") {
		p.next()
		x = &EBinary{"&&", x, p.parseCmp()}
	}
	return x
}

func (p *parser) parseCmp() Expr {
	x := p.parseAdd()
	for {
		t := p.peek()
		if t.k == tOp && (t.s == "==" || t.s == "!=" || t.s == "<" || t.s == "<=" || t.s == ">" || t.s == ">=") {
			p.next()
			if c, ok := x.(*ECall); ok && c.Fun == "typeof" && (t.s == "==" || t.s == "!=") {
				ty := p.parseType()
				x = &EBinary{t.s, x, &EType{ty}}
				continue
			}
			x = &EBinary{t.s, x, p.parseAdd()}
			continue
		}
		if t.k == tIdent && t.s == "in" {
			p.next()
			x = &EBinary{"in", x, p.parseAdd()}
			continue
		}
		return x
	}
}

func (p *parser) parseAdd() Expr {
	x := p.parseMul()
	for {
		t := p.peek()
		if t.k == tOp && (t.s == "+" || t.s == "-" || t.s == "|" || t.s == "^") {
			p.next()
			x = &EBinary{t.s, x, p.parseMul()}
			continue
		}
		return x
	}
}

func (p *parser) parseMul() Expr {
	x := p.parseUnary()
	for {
		t := p.peek()
		if t.k == tOp && (t.s == "*" || t.s == "/" || t.s == "%" || t.s == "<<" || t.s == ">>" || t.s == "&") {
			p.next()
			x = &EBinary{t.s, x, p.parseUnary()}
			continue
		}
		return x
	}
}

func (p *parser) parseUnary() Expr {
	t := p.peek()
	if t.k == tOp && (t.s == "!" || t.s == "-" || t.s == "*") {
		p.next()
		return &EUnary{t.s, p.parseUnary()}
	}
	return p.parsePostfix()
}

func (p *parser) parseType() *TypeExpr {
	if p.accept("*") {
		return &TypeExpr{Ptr: p.parseType()}
	}
	if p.accept("[]") {
		return &TypeExpr{Slice: p.parseType()}
	}
	if p.isOp("[") {
		p.next()
		p.expect("]")
		return &TypeExpr{Slice: p.parseType()}
	}
	t := p.next()
	if t.k != tIdent {
		panic(fmt.Errorf("expected type name at %d in %q", t.pos, p.src))
	}
	if t.s == "map" && p.isOp("[") {
		p.next()
		k := p.parseType()
		p.expect("]")
		v := p.parseType()
		return &TypeExpr{MapK: k, MapV: v}
	}
	if t.s == "interface" && p.isOp("{") {
		p.next()
		p.expect("}")
		return &TypeExpr{Empty: true}
	}
	if p.isOp(".") && p.toks[p.p+1].k == tIdent {
		p.next()
		n := p.next()
		return &TypeExpr{Pkg: t.s, Name: n.s}
	}
	return &TypeExpr{Name: t.s}
}

func (p *parser) parsePostfix() Expr {
	x := p.parsePrimary()
	for {
		switch {
		case p.isOp("."):
			p.next()
			if p.accept("(") {
				ty := p.parseType()
				p.expect(")")
				x = &EAssert{x, ty}
				continue
			}
			n := p.next()
			if n.k != tIdent {
				panic(fmt.Errorf("expected field name at %d in %q", n.pos, p.src))
			}
			x = &ESel{x, n.s}
		case p.isOp("["):
			p.next()
			var lo, hi Expr
			if !p.isOp(":") {
				lo = p.parseIff()
			}
			if p.accept(":") {
				if !p.isOp("]") {
					hi = p.parseIff()
				}
				p.expect("]")
				x = &ESlice{x, lo, hi}
			} else {
				p.expect("]")
				x = &EIndex{x, lo}
			}
		case p.isOp("("):
			// call: only on identifiers / pkg.ident
			name := exprName(x)
			if name == "" {
				return x
			}
			p.next()
			var args []Expr
			for !p.isOp(")") {
				if name == "typeis" && len(args) == 1 || name == "zero" && len(args) == 0 {
					args = append(args, &EType{p.parseType()})
				} else {
					args = append(args, p.parseIff())
				}
				if !p.accept(",") {
					break
				}
			}
			p.expect(")")
			x = &ECall{name, args}
		default:
			return x
		}
	}
}

func exprName(x Expr) string {
	switch v := x.(type) {
	case *EIdent:
		return v.Name
	case *ESel:
		if id, ok := v.X.(*EIdent); ok {
			return id.Name + "." + v.Name
		}
	}
	return ""
}

func (p *parser) parsePrimary() Expr {
	t := p.next()
	switch t.k {
	case tInt:
		s := strings.ReplaceAll(t.s, "_", "")
		v := new(big.Int)
		if _, ok := v.SetString(s, 0); !ok {
			panic(fmt.Errorf("bad integer %q", t.s))
		}
		return &EInt{v}
	case tStr:
		return &EStr{t.s}
	case tIdent:
		switch t.s {
		case "true":
			return &EBool{true}
		case "false":
			return &EBool{false}
		case "nil":
			return &ENil{}
		}
		return &EIdent{t.s}
	case tOp:
		switch t.s {
		case "(":
			e := p.parseIff()
			p.expect(")")
			return e
		case "{":
			var elems []Expr
			for !p.isOp("}") {
				elems = append(elems, p.parseIff())
				if !p.accept(",") {
					break
				}
			}
			p.expect("}")
			return &ESet{elems}
		}
	}
	panic(fmt.Errorf("unexpected stok %q at %d in %q", t.s, t.pos, p.src))
}

// ---------------------------------------------------------------------------
// Contract files

var clauseKeywords = map[string]bool{
	"func": true, "interface": true, "requires": true, "ensures": true, "modifies": true,
	"let": true, "loop": true, "invariant": true, "ghost": true, "axiom": true, "lemma": true,
	"table": true, "import": true, "flag": true, "assert": true, "external": true, "loopmodifies": true, "when": true, "ghostfield": true, "immutable": true, "protected": true, "objinv": true, "onalloc": true,
}

type rawClause struct {
	kw   string
	text string
	line int
}

func readSpecFile(path string, pkgPath string) (*SpecFile, error) {
	data, err := os.ReadFile(path)
	if err != nil {
		return nil, err
	}
	sf := &SpecFile{Path: path, Pkg: pkgPath, Imports: map[string]string{}}
	var clauses []rawClause
	for ln, line := range strings.Split(string(data), "\n") {
		tl := strings.TrimSpace(line)
		if !strings.HasPrefix(tl, "//@") {
			continue
		}
		body := strings.TrimSpace(tl[3:])
		if body == "" || strings.HasPrefix(body, "#") {
			continue
		}
		// strip trailing comments introduced by " // "
		if i := strings.Index(body, " // "); i >= 0 {
			body = strings.TrimSpace(body[:i])
		}
		kw := body
		if i := strings.IndexAny(body, " \t:"); i >= 0 {
			kw = body[:i]
		}
		if clauseKeywords[kw] {
			clauses = append(clauses, rawClause{kw, strings.TrimSpace(body[len(kw):]), ln + 1})
		} else {
			if len(clauses) == 0 {
				return nil, fmt.Errorf("%s:%d: continuation line without clause", path, ln+1)
			}
			clauses[len(clauses)-1].text += " " + body
		}
	}
	var cur *Contract
	var curLoop *LoopSpec
	mustExpr := func(rc rawClause, text string) Expr {
		e, err := parseExpr(text)
		if err != nil {
			panic(fmt.Errorf("%s:%d: %v", path, rc.line, err))
		}
		return e
	}
	var perr error
	func() {
		defer func() {
			if r := recover(); r != nil {
				if e, ok := r.(error); ok {
					perr = e
					return
				}
				panic(r)
			}
		}()
		for _, rc := range clauses {
			switch rc.kw {
			case "import":
				// import alias "path"
				f := strings.Fields(rc.text)
				if len(f) != 2 {
					panic(fmt.Errorf("%s:%d: import alias \"path\"", path, rc.line))
				}
				p, _ := strconv.Unquote(f[1])
				sf.Imports[f[0]] = p
			case "func", "interface", "external":
				cur = &Contract{Pkg: pkgPath, Loops: map[int]*LoopSpec{}, Flags: map[string]bool{}, FlagArgs: map[string][]string{}, File: path, Line: rc.line}
				curLoop = nil
				text := rc.text
				if rc.kw == "interface" {
					cur.Interface = true
				}
				if rc.kw == "external" {
					cur.External = true
				}
				// NAME(params)
				name := text
				if strings.HasSuffix(text, ")") {
					j := strings.LastIndexByte(text, '(')
					if j > 0 {
						name = strings.TrimSpace(text[:j])
						ps := strings.TrimSpace(text[j+1 : len(text)-1])
						if ps != "" {
							for _, p := range strings.Split(ps, ",") {
								cur.Params = append(cur.Params, strings.TrimSpace(p))
							}
						}
					}
				}
				cur.Target = name
				sf.Contracts = append(sf.Contracts, cur)
			case "requires", "ensures", "assert":
				if cur == nil {
					panic(fmt.Errorf("%s:%d: clause outside func", path, rc.line))
				}
				text := rc.text
				label := ""
				if strings.HasPrefix(text, "[") {
					if i := strings.IndexByte(text, ']'); i > 0 {
						label = text[1:i]
						text = strings.TrimSpace(text[i+1:])
					}
				}
				cl := Clause{E: mustExpr(rc, text), Text: text, Name: label, Line: rc.line}
				switch rc.kw {
				case "requires":
					cur.Requires = append(cur.Requires, cl)
				case "ensures":
					cur.Ensures = append(cur.Ensures, cl)
				case "assert":
					cur.Asserts = append(cur.Asserts, cl)
				}
			case "when":
				if cur == nil {
					panic(fmt.Errorf("%s:%d: when outside func", path, rc.line))
				}
				cur.When = &Clause{E: mustExpr(rc, rc.text), Text: rc.text, Line: rc.line}
			case "modifies", "loopmodifies":
				if cur == nil {
					panic(fmt.Errorf("%s:%d: clause outside func", path, rc.line))
				}
				var dst *[]Expr
				if curLoop != nil && rc.kw == "loopmodifies" {
					dst = &curLoop.Modifies
				} else {
					dst = &cur.Modifies
					cur.HasMod = true
				}
				t := strings.TrimSpace(rc.text)
				if t == "nothing" {
					break
				}
				if t == "all" {
					cur.ModAll = true
					break
				}
				for _, part := range splitTop(t) {
					*dst = append(*dst, mustExpr(rc, part))
				}
			case "let":
				if cur == nil {
					panic(fmt.Errorf("%s:%d: let outside func", path, rc.line))
				}
				i := strings.IndexByte(rc.text, '=')
				if i < 0 {
					panic(fmt.Errorf("%s:%d: let x = e", path, rc.line))
				}
				cur.Lets = append(cur.Lets, Let{strings.TrimSpace(rc.text[:i]), mustExpr(rc, rc.text[i+1:])})
			case "loop":
				if cur == nil {
					panic(fmt.Errorf("%s:%d: loop outside func", path, rc.line))
				}
				t := strings.TrimSuffix(strings.TrimSpace(rc.text), ":")
				n, err := strconv.Atoi(strings.TrimSpace(t))
				if err != nil {
					panic(fmt.Errorf("%s:%d: loop N", path, rc.line))
				}
				curLoop = &LoopSpec{Flags: map[string]bool{}}
				cur.Loops[n] = curLoop
			case "invariant":
				if curLoop == nil {
					panic(fmt.Errorf("%s:%d: invariant outside loop", path, rc.line))
				}
				itext, ilabel := rc.text, ""
				if strings.HasPrefix(itext, "[") {
					if i := strings.IndexByte(itext, ']'); i > 0 {
						ilabel = itext[1:i]
						itext = strings.TrimSpace(itext[i+1:])
					}
				}
				curLoop.Invariants = append(curLoop.Invariants, Clause{E: mustExpr(rc, itext), Text: itext, Name: ilabel, Line: rc.line})
			case "flag":
				if cur == nil {
					panic(fmt.Errorf("%s:%d: flag outside func", path, rc.line))
				}
				if curLoop != nil {
					for _, f := range strings.Fields(rc.text) {
						curLoop.Flags[f] = true
					}
					break
				}
				for _, f := range strings.Fields(rc.text) {
					if i := strings.IndexByte(f, '='); i > 0 {
						cur.Flags[f[:i]] = true
						cur.FlagArgs[f[:i]] = strings.Split(f[i+1:], ",")
					} else {
						cur.Flags[f] = true
					}
				}
			case "ghost":
				// ghost func name(a T, b U) R [= body]
				t0 := strings.TrimSpace(rc.text)
				pure := false
				if strings.HasPrefix(t0, "pure ") {
					pure = true
					t0 = strings.TrimSpace(t0[5:])
				}
				t := strings.TrimSpace(strings.TrimPrefix(t0, "func"))
				g := &GhostFunc{Pkg: pkgPath, Pure: pure}
				i := strings.IndexByte(t, '(')
				j := matchParen(t, i)
				g.Name = strings.TrimSpace(t[:i])
				ps := strings.TrimSpace(t[i+1 : j])
				if ps != "" {
					for _, p := range strings.Split(ps, ",") {
						f := strings.Fields(strings.TrimSpace(p))
						if len(f) != 2 {
							panic(fmt.Errorf("%s:%d: ghost param %q", path, rc.line, p))
						}
						g.Params = append(g.Params, GhostParam{f[0], f[1]})
					}
				}
				rest := strings.TrimSpace(t[j+1:])
				if k := strings.IndexByte(rest, '='); k >= 0 {
					g.Result = strings.TrimSpace(rest[:k])
					g.Body = mustExpr(rc, rest[k+1:])
				} else {
					g.Result = rest
				}
				sf.Ghosts = append(sf.Ghosts, g)
				cur, curLoop = nil, nil
			case "protected":
				// protected [exclusive] T.f, T.g by T.mu
				t := strings.TrimSpace(rc.text)
				excl := false
				if strings.HasPrefix(t, "exclusive ") {
					excl = true
					t = strings.TrimSpace(t[len("exclusive "):])
				}
				i := strings.LastIndex(t, " by ")
				if i < 0 {
					panic(fmt.Errorf("%s:%d: protected [exclusive] T.f, ... by T.mu", path, rc.line))
				}
				muf := strings.TrimSpace(t[i+4:])
				for _, f := range splitTop(t[:i]) {
					sf.Protected = append(sf.Protected, Protected{Field: strings.TrimSpace(f), Mu: muf, Exclusive: excl})
				}
				cur, curLoop = nil, nil
			case "onalloc":
				// onalloc T(c): expr
				t := rc.text
				ci := strings.Index(t, ":")
				pi := strings.IndexByte(t, '(')
				if ci < 0 || pi < 0 || pi > ci {
					panic(fmt.Errorf("%s:%d: onalloc T(c): expr", path, rc.line))
				}
				oa := &OnAlloc{Type: strings.TrimSpace(t[:pi]), Var: strings.TrimSuffix(strings.TrimSpace(t[pi+1:ci]), ")"), Text: strings.TrimSpace(t[ci+1:]), Line: rc.line, Pkg: pkgPath, SF: sf}
				oa.E = mustExpr(rc, t[ci+1:])
				sf.OnAllocs = append(sf.OnAllocs, oa)
				cur, curLoop = nil, nil
			case "objinv":
				// objinv T(h) by Ctor over T.f, U.g: expr
				t := rc.text
				ci := strings.Index(t, ":")
				bi := strings.Index(t, " by ")
				oi := strings.Index(t, " over ")
				pi := strings.IndexByte(t, '(')
				if ci < 0 || bi < 0 || oi < bi || ci < oi || pi < 0 || pi > bi {
					panic(fmt.Errorf("%s:%d: objinv T(h) by Ctor over T.f, ...: expr", path, rc.line))
				}
				oiv := &ObjInv{Type: strings.TrimSpace(t[:pi]), Var: strings.TrimSuffix(strings.TrimSpace(t[pi+1:bi]), ")"), Ctor: strings.TrimSpace(t[bi+4 : oi]),
					Text: strings.TrimSpace(t[ci+1:]), Line: rc.line, Pkg: pkgPath, SF: sf}
				for _, f := range splitTop(t[oi+6 : ci]) {
					oiv.Fields = append(oiv.Fields, strings.TrimSpace(f))
				}
				oiv.E = mustExpr(rc, t[ci+1:])
				sf.ObjInvs = append(sf.ObjInvs, oiv)
				cur, curLoop = nil, nil
			case "immutable":
				for _, f := range splitTop(rc.text) {
					sf.Immutable = append(sf.Immutable, strings.TrimSpace(f))
				}
				cur, curLoop = nil, nil
			case "ghostfield":
				f := strings.Fields(rc.text)
				if len(f) != 2 {
					panic(fmt.Errorf("%s:%d: ghostfield name type", path, rc.line))
				}
				sf.GhostFields = append(sf.GhostFields, &GhostField{Name: f[0], Type: f[1], Pkg: pkgPath})
				cur, curLoop = nil, nil
			case "axiom", "lemma":
				// lemma name(vars): expr
				t := rc.text
				i := strings.IndexByte(t, ':')
				if i < 0 {
					panic(fmt.Errorf("%s:%d: %s name: expr", path, rc.line, rc.kw))
				}
				head := strings.TrimSpace(t[:i])
				l := &Lemma{Axiom: rc.kw == "axiom", Pkg: pkgPath, Text: strings.TrimSpace(t[i+1:])}
				if k := strings.IndexByte(head, '('); k >= 0 {
					l.Name = strings.TrimSpace(head[:k])
					ps := strings.TrimSuffix(strings.TrimSpace(head[k+1:]), ")")
					for _, p := range strings.Split(ps, ",") {
						f := strings.Fields(strings.TrimSpace(p))
						if len(f) == 2 {
							l.Vars = append(l.Vars, GhostParam{f[0], f[1]})
						}
					}
				} else {
					l.Name = head
				}
				l.E = mustExpr(rc, t[i+1:])
				sf.Lemmas = append(sf.Lemmas, l)
				cur, curLoop = nil, nil
			case "table":
				t := rc.text
				i := strings.IndexByte(t, ':')
				if i < 0 {
					panic(fmt.Errorf("%s:%d: table var: expr", path, rc.line))
				}
				tp := &TablePin{Var: strings.TrimSpace(t[:i]), Text: strings.TrimSpace(t[i+1:]), Pkg: pkgPath, Line: rc.line}
				tp.E = mustExpr(rc, t[i+1:])
				sf.Tables = append(sf.Tables, tp)
				cur, curLoop = nil, nil
			}
		}
	}()
	if perr != nil {
		return nil, perr
	}
	return sf, nil
}

func matchParen(s string, i int) int {
	d := 0
	for j := i; j < len(s); j++ {
		switch s[j] {
		case '(':
			d++
		case ')':
			d--
			if d == 0 {
				return j
			}
		}
	}
	panic(fmt.Errorf("unbalanced parentheses in %q", s))
}

// splitTop splits on commas that are not nested in brackets.
func splitTop(s string) []string {
	var out []string
	d := 0
	last := 0
	for i := 0; i < len(s); i++ {
		switch s[i] {
		case '(', '[', '{':
			d++
		case ')', ']', '}':
			d--
		case ',':
			if d == 0 {
				out = append(out, strings.TrimSpace(s[last:i]))
				last = i + 1
			}
		}
	}
	out = append(out, strings.TrimSpace(s[last:]))
	return out
}

// findSpecFiles lists contract files: /repo/<pkg>/zz_contracts_verif.go.
func findRepoSpecFiles(repo string) ([]string, error) {
	var out []string
	err := filepath.Walk(repo, func(p string, info os.FileInfo, err error) error {
		if err != nil {
			return nil
		}
		if info.IsDir() && (info.Name() == ".git" || info.Name() == "vendor") {
			return filepath.SkipDir
		}
		if !info.IsDir() && info.Name() == "zz_contracts_verif.go" {
			out = append(out, p)
		}
		return nil
	})
	return out, err
}
