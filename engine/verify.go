package main

import (
	"strconv"
	"fmt"
	"go/types"
	"runtime/debug"
	"sort"
	"strings"
	"sync"
	"time"

	"golang.org/x/tools/go/ssa"
)

// FuncReport is the outcome of VC generation for one function.
type FuncReport struct {
	Name    string
	Err     string // non-empty: outside subset / contract error (undecided)
	Paths   int
	Returns int
	Checks  int
}

func (x *Exec) verifyFunction(f *ssa.Function) (rep FuncReport) {
	rep.Name = funcDisplayName(f)
	c := x.contractFor(f)
	if c == nil {
		rep.Err = "no contract"
		return
	}
	if len(f.Blocks) == 0 {
		rep.Err = "no body"
		return
	}
	before := len(x.checks)
	x.curFn, x.curC = f, c
	x.paths, x.retPaths = 0, 0
	x.softErr = ""
	defer func() {
		rep.Paths = x.paths
		rep.Returns = x.retPaths
		rep.Checks = len(x.checks) - before
		if x.softErr != "" {
			// a loop invariant that cannot be stated on the code as it is now (the loop structure or a name it
			// uses changed) is skipped - fewer assumptions, so every other verdict stands - and the function is
			// reported as undecided unless another obligation fails
			rep.Err = "contract error (invariant skipped): " + x.softErr
		}
		if r := recover(); r != nil {
			x.checks = x.checks[:before]
			switch e := r.(type) {
			case outsideSubset:
				rep.Err = "outside subset: " + e.msg
			case specErr:
				rep.Err = "contract error: " + e.msg
			default:
				rep.Err = fmt.Sprintf("engine panic: %v\n%s", r, debug.Stack())
			}
		}
	}()
	st := x.baseState()
	// symbol numbering restarts for every function, so the text of a query (and with it the solver's
	// behaviour) does not depend on which other functions were verified before it
	if x.baseCtr == 0 {
		x.baseCtr = freshCtr + 1
	}
	freshCtr = x.baseCtr
	st.entryNext = st.next
	st.assume(eq(entryNextSym(), st.next))
	x.curFn = f
	var args []Val
	for _, p := range f.Params {
		t := declConst("p "+p.Name(), sortOf(p.Type()))
		st.assume(typingFact(p.Type(), t))
		x.assumeAllocated(st, p.Type(), t)
		v := Val{T: t, typ: p.Type()}
		st.vals[p] = v
		args = append(args, v)
	}
	for _, fv := range f.FreeVars {
		t := declConst("fv "+fv.Name(), SInt)
		st.assume(and(app(SBool, "<", mkInt(0), t), app(SBool, "<", t, st.next)))
		st.vals[fv] = Val{T: t, typ: fv.Type()}
	}
	x.initGhost(st, c)
	fr := &Frame{fn: f, contract: c, entryNext: st.next}
	fr.env = x.bindParams(c, f.Signature, f, args)
	for _, fv := range f.FreeVars {
		fr.env[fv.Name()] = x.freeVarSV(st, st.vals[fv], fv)
	}
	fr.pre = st.snapshot()
	x.objInvEntry(st, f, args)
	c = x.objInvCtor(f, c)
	fr.contract = c
	ctx := x.ctxFor(c, st, fr.pre, fr.env, f)
	for _, r := range c.Requires {
		st.assume(x.evalClause(ctx, r, c))
	}
	// free-variable SVs must be re-read lazily: keep them as addresses
	fr.pre = st.snapshot()
	x.fnInfos[f.String()] = &fnInfo{fn: f, pre: fr.pre, env: fr.env, contract: c}
	// vacuity cover: the precondition is satisfiable
	x.checks = append(x.checks, &Check{Name: rep.Name + "/cover/requires", At: st.ev, Cover: true, Fn: f.String()})
	x.runBlock(st, fr, f.Blocks[0])
	return
}

func (x *Exec) assumeAllocated(st *State, t types.Type, v T) {
	switch t.Underlying().(type) {
	case *types.Pointer, *types.Map, *types.Signature, *types.Chan:
		st.assume(app(SBool, "<", v, st.next))
	case *types.Slice:
		st.assume(app(SBool, "<", sliceArr(v), st.next))
	case *types.Interface:
		// payload refs of pointer-typed dynamic values are allocated
		st.assume(app(SBool, "<", ifacePl(v), st.next))
	case *types.Struct:
		u := t.Underlying().(*types.Struct)
		for i := 0; i < u.NumFields(); i++ {
			x.assumeAllocated(st, u.Field(i).Type(), structField(t, v, i))
		}
	}
}

func (x *Exec) initGhost(st *State, c *Contract) {
}

// ---------------------------------------------------------------------------
// Discharge

type Instance struct {
	Check  *Check
	Result SolverResult
	Tried  []SolverResult
}

type Obligation struct {
	Name      string
	Instances []*Instance
	Status    string // discharged | failed | unknown
	Fail      *Instance
	Secs      float64
	Backends  map[string]int
	Where     string
	Detail    string
}

type dischargeOpts struct {
	timeoutMs int
	thorough  bool
	seed      int
	jobs      int
	hints     map[string][]string
}

func solveOne(c *Check, o dischargeOpts) *Instance {
	inst := &Instance{Check: c}
	try := func(sp solverSpec, tmo int, seed int) SolverResult {
		r := runSolver(sp, c, tmo, seed)
		inst.Tried = append(inst.Tried, r)
		return r
	}
	if o.thorough && !c.Cover {
		// all three solvers, agreement required
		var results []SolverResult
		var wg sync.WaitGroup
		results = make([]SolverResult, len(solvers))
		for i, sp := range solvers {
			wg.Add(1)
			go func(i int, sp solverSpec) {
				defer wg.Done()
				results[i] = runSolver(sp, c, o.timeoutMs, o.seed)
			}(i, sp)
		}
		wg.Wait()
		inst.Tried = results
		var sat, unsat *SolverResult
		for i := range results {
			switch results[i].Status {
			case "sat":
				sat = &results[i]
			case "unsat":
				unsat = &results[i]
			}
		}
		switch {
		case sat != nil && unsat != nil:
			inst.Result = SolverResult{Status: "disagree", Solver: sat.Solver + " vs " + unsat.Solver, Output: sat.Output}
		case sat != nil:
			inst.Result = *sat
		case unsat != nil:
			inst.Result = *unsat
		default:
			inst.Result = results[0]
		}
		return inst
	}
	if c.Cover {
		inst.Result = try(solvers[0], 1500, o.seed)
		return inst
	}
	// rungs remembered in the ledger for this obligation go first
	if !o.thorough {
		for _, rung := range o.hints[c.Name] {
			spName, level := rung, -1
			if i := strings.LastIndex(rung, "/rel"); i >= 0 {
				if n, err := strconv.Atoi(rung[i+4:]); err == nil {
					spName, level = rung[:i], n
				}
			}
			for _, sp := range solvers {
				if sp.name != spName {
					continue
				}
				if level >= 30 && c.Focus == "" {
					continue
				}
				rf := runSolverLevel(sp, c, o.timeoutMs*3, o.seed, level)
				if level >= 0 {
					rf.Solver += fmt.Sprintf("/rel%d", level)
				}
				inst.Tried = append(inst.Tried, rf)
				if rf.Status == "unsat" {
					inst.Result = rf
					return inst
				}
			}
		}
	}
	// filtered attempts (only `unsat` counts), then the full query
	quick := o.timeoutMs / 2
	for _, att := range []struct {
		sp    solverSpec
		level int
	}{{solvers[0], 30}, {solvers[0], 31}, {solvers[0], 0}, {solvers[0], 10}, {solvers[0], 1}, {solvers[0], 11}, {solvers[0], 2}, {solvers[1], 0}, {solvers[1], 2}} {
		if att.level >= 30 && c.Focus == "" {
			continue
		}
		tmo := quick
		if att.level >= 30 {
			tmo = o.timeoutMs // the focused query is the one most likely to succeed: give it room
		}
		rf := runSolverLevel(att.sp, c, tmo, o.seed, att.level)
		rf.Solver += fmt.Sprintf("/rel%d", att.level)
		inst.Tried = append(inst.Tried, rf)
		if rf.Status == "unsat" {
			inst.Result = rf
			return inst
		}
	}
	r := try(solvers[0], o.timeoutMs, o.seed)
	if r.Status == "unsat" || r.Status == "sat" {
		inst.Result = r
		return inst
	}
	// portfolio: the other solvers, then longer budgets
	for _, sp := range solvers[1:] {
		r2 := try(sp, o.timeoutMs, o.seed)
		if r2.Status == "unsat" || r2.Status == "sat" {
			inst.Result = r2
			return inst
		}
	}
	for _, att := range []struct {
		sp    solverSpec
		level int
	}{{solvers[0], 3}, {solvers[3], 0}, {solvers[3], 2}, {solvers[2], 1}} {
		rf := runSolverLevel(att.sp, c, o.timeoutMs*2, o.seed+7, att.level)
		rf.Solver += fmt.Sprintf("/rel%d", att.level)
		inst.Tried = append(inst.Tried, rf)
		if rf.Status == "unsat" {
			inst.Result = rf
			return inst
		}
	}
	for _, sp := range []solverSpec{solvers[0], solvers[1], solvers[3]} {
		r2 := try(sp, o.timeoutMs*3, o.seed+7)
		if r2.Status == "unsat" || r2.Status == "sat" {
			inst.Result = r2
			return inst
		}
	}
	inst.Result = r
	return inst
}

func discharge(checks []*Check, o dischargeOpts) (obls []*Obligation, covers map[string][]*Instance, stats map[string]float64) {
	// dedupe identical queries
	byHash := map[string]*Instance{}
	var uniq []*Check
	hashes := make([]string, len(checks))
	for i, c := range checks {
		h := c.Hash()
		hashes[i] = h
		if _, ok := byHash[h]; !ok {
			byHash[h] = nil
			uniq = append(uniq, c)
		}
	}
	results := make([]*Instance, len(uniq))
	var wg sync.WaitGroup
	sem := make(chan struct{}, o.jobs)
	// an obligation is failed by one instance: once an instance has a counterexample, or three instances stay
	// undecided after the whole ladder, the remaining instances of that obligation are not attempted (a failing run
	// would otherwise climb the ladder for every path). Passing runs are unaffected.
	var fmu sync.Mutex
	satSeen := map[string]bool{}
	undecided := map[string]int{}
	for i, c := range uniq {
		wg.Add(1)
		sem <- struct{}{}
		go func(i int, c *Check) {
			defer wg.Done()
			defer func() { <-sem }()
			if !c.Cover && !o.thorough {
				fmu.Lock()
				skip := satSeen[c.Name] || undecided[c.Name] >= 3
				fmu.Unlock()
				if skip {
					results[i] = &Instance{Check: c, Result: SolverResult{Status: "skipped", Solver: "-"}}
					return
				}
			}
			results[i] = solveOne(c, o)
			if !c.Cover && results[i].Result.Status != "unsat" {
				fmu.Lock()
				if results[i].Result.Status == "sat" {
					satSeen[c.Name] = true
				} else {
					undecided[c.Name]++
				}
				fmu.Unlock()
			}
		}(i, c)
	}
	wg.Wait()
	for i, c := range uniq {
		byHash[c.Hash()] = results[i]
	}
	stats = map[string]float64{}
	oblMap := map[string]*Obligation{}
	covers = map[string][]*Instance{}
	for i, c := range checks {
		r := byHash[hashes[i]]
		inst := &Instance{Check: c, Result: r.Result, Tried: r.Tried}
		if c.Cover {
			covers[c.Name] = append(covers[c.Name], inst)
			continue
		}
		ob := oblMap[c.Name]
		if ob == nil {
			ob = &Obligation{Name: c.Name, Backends: map[string]int{}, Where: c.Where, Detail: c.Detail}
			oblMap[c.Name] = ob
			obls = append(obls, ob)
		}
		ob.Instances = append(ob.Instances, inst)
	}
	for _, r := range results {
		for _, t := range r.Tried {
			stats[t.Solver] += t.Secs
		}
	}
	for _, ob := range obls {
		ob.Status = "discharged"
		var skipped *Instance
		for _, in := range ob.Instances {
			ob.Secs += in.Result.Secs
			switch in.Result.Status {
			case "unsat":
				ob.Backends[in.Result.Solver]++
			case "skipped":
				// not attempted because another instance of this obligation had already failed
				skipped = in
			case "sat":
				if ob.Status != "failed" {
					ob.Status = "failed"
					ob.Fail = in
				}
			default:
				if ob.Status == "discharged" {
					ob.Status = "unknown"
					ob.Fail = in
				}
			}
		}
		neverDischargedWithSkips(ob, skipped)
	}
	sort.Slice(obls, func(i, j int) bool { return obls[i].Name < obls[j].Name })
	return
}

// (an obligation never counts as discharged with an instance that was not attempted)
func neverDischargedWithSkips(ob *Obligation, skipped *Instance) {
	if skipped != nil && ob.Status == "discharged" {
		ob.Status = "unknown"
		ob.Fail = skipped
	}
}

func fmtSecs(d time.Duration) string { return fmt.Sprintf("%.2f", d.Seconds()) }

func summarizeModel(out string) string {
	// keep the model text compact
	lines := strings.Split(out, "\n")
	if len(lines) > 400 {
		lines = lines[:400]
	}
	return strings.Join(lines, "\n")
}
