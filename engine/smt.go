package main

import (
	"bytes"
	"context"
	"crypto/sha256"
	"encoding/hex"
	"fmt"
	"math/big"
	"os/exec"
	"sort"
	"strings"
	"sync"
	"time"
)

// T is an SMT-LIB term with its sort (both as text).
type T struct {
	S    string
	Sort string
}

func (t T) String() string { return t.S }

const (
	SInt    = "Int"
	SBool   = "Bool"
	SString = "String"
	SReal   = "Real"
	SSlice  = "Slice"
	SIface  = "Iface"
	SFloat  = "XF" // extended real
)

func mkInt(i int64) T {
	if i < 0 {
		return T{fmt.Sprintf("(- %d)", -i), SInt}
	}
	return T{fmt.Sprintf("%d", i), SInt}
}

func mkBig(b *big.Int) T {
	if b.Sign() < 0 {
		return T{"(- " + new(big.Int).Neg(b).String() + ")", SInt}
	}
	return T{b.String(), SInt}
}

func mkBool(b bool) T {
	if b {
		return T{"true", SBool}
	}
	return T{"false", SBool}
}

// smtString encodes a Go string (bytes) as an SMT-LIB string literal, one
// SMT character per byte.
func smtString(s string) T {
	var b strings.Builder
	b.WriteByte('"')
	for i := 0; i < len(s); i++ {
		c := s[i]
		switch {
		case c == '"':
			b.WriteString(`""`)
		case c == '\\':
			b.WriteString(`\u{5c}`)
		case c >= 0x20 && c < 0x7f:
			b.WriteByte(c)
		default:
			fmt.Fprintf(&b, `\u{%x}`, c)
		}
	}
	b.WriteByte('"')
	return T{b.String(), SString}
}

func app(sortOut string, op string, args ...T) T {
	var b strings.Builder
	b.WriteByte('(')
	b.WriteString(op)
	for _, a := range args {
		b.WriteByte(' ')
		b.WriteString(a.S)
	}
	b.WriteByte(')')
	return T{b.String(), sortOut}
}

func and(ts ...T) T {
	var out []T
	for _, t := range ts {
		if t.S == "true" {
			continue
		}
		if t.S == "false" {
			return mkBool(false)
		}
		out = append(out, t)
	}
	if len(out) == 0 {
		return mkBool(true)
	}
	if len(out) == 1 {
		return out[0]
	}
	return app(SBool, "and", out...)
}

func or(ts ...T) T {
	var out []T
	for _, t := range ts {
		if t.S == "false" {
			continue
		}
		if t.S == "true" {
			return mkBool(true)
		}
		out = append(out, t)
	}
	if len(out) == 0 {
		return mkBool(false)
	}
	if len(out) == 1 {
		return out[0]
	}
	return app(SBool, "or", out...)
}

func not(t T) T {
	switch t.S {
	case "true":
		return mkBool(false)
	case "false":
		return mkBool(true)
	}
	if strings.HasPrefix(t.S, "(not ") && balanced(t.S[5:len(t.S)-1]) {
		return T{t.S[5 : len(t.S)-1], SBool}
	}
	return app(SBool, "not", t)
}

func balanced(s string) bool {
	d := 0
	inStr := false
	inBar := false
	for i := 0; i < len(s); i++ {
		c := s[i]
		switch {
		case inStr:
			if c == '"' {
				inStr = false
			}
		case inBar:
			if c == '|' {
				inBar = false
			}
		case c == '"':
			inStr = true
		case c == '|':
			inBar = true
		case c == '(':
			d++
		case c == ')':
			d--
			if d < 0 {
				return false
			}
		case c == ' ' && d == 0:
			return false
		}
	}
	return d == 0
}

func implies(a, b T) T {
	if a.S == "true" {
		return b
	}
	if a.S == "false" || b.S == "true" {
		return mkBool(true)
	}
	return app(SBool, "=>", a, b)
}

func eq(a, b T) T {
	if a.S == b.S {
		return mkBool(true)
	}
	return app(SBool, "=", a, b)
}

func ite(c, a, b T) T {
	if c.S == "true" {
		return a
	}
	if c.S == "false" {
		return b
	}
	if a.S == b.S {
		return a
	}
	return app(a.Sort, "ite", c, a, b)
}

func sel(arr, idx T) T {
	return app(arrayElemSort(arr.Sort), "select", arr, idx)
}

func store(arr, idx, v T) T {
	return app(arr.Sort, "store", arr, idx, v)
}

func arraySort(idx, elem string) string { return "(Array " + idx + " " + elem + ")" }

// arrayElemSort returns the element sort of "(Array I E)".
func arrayElemSort(s string) string {
	if !strings.HasPrefix(s, "(Array ") {
		panic("not an array sort: " + s)
	}
	body := s[len("(Array ") : len(s)-1]
	// split first sort
	i := sortEnd(body)
	return strings.TrimSpace(body[i:])
}

func arrayIndexSort(s string) string {
	body := s[len("(Array ") : len(s)-1]
	i := sortEnd(body)
	return strings.TrimSpace(body[:i])
}

func sortEnd(s string) int {
	if s[0] != '(' {
		if s[0] == '|' {
			j := strings.IndexByte(s[1:], '|')
			return j + 2
		}
		j := strings.IndexByte(s, ' ')
		if j < 0 {
			return len(s)
		}
		return j
	}
	d := 0
	inBar := false
	for i := 0; i < len(s); i++ {
		if inBar {
			if s[i] == '|' {
				inBar = false
			}
			continue
		}
		switch s[i] {
		case '|':
			inBar = true
		case '(':
			d++
		case ')':
			d--
			if d == 0 {
				return i + 1
			}
		}
	}
	return len(s)
}

func quoteSym(s string) string {
	simple := true
	for i := 0; i < len(s); i++ {
		c := s[i]
		if !(c >= 'a' && c <= 'z' || c >= 'A' && c <= 'Z' || c >= '0' && c <= '9' || c == '_' || c == '.' || c == '!' || c == '$' || c == '@' || c == '#') {
			simple = false
			break
		}
	}
	if simple && len(s) > 0 && !(s[0] >= '0' && s[0] <= '9') && s[0] != '.' && s[0] != '@' && s[0] != '#' {
		return s
	}
	s = strings.ReplaceAll(s, "|", "!")
	s = strings.ReplaceAll(s, "\\", "/")
	return "|" + s + "|"
}

// ---------------------------------------------------------------------------
// Events: a path is a persistent list of declarations and assumptions.

type EvKind int

const (
	EvDecl EvKind = iota
	EvAssume
	EvFun // uninterpreted function declaration / axiom text (raw command)
)

type Event struct {
	Kind EvKind
	Text string // assumption body
	Def  string // non-empty: this assumption defines the constant Def (sliced away when unused)
	prev *Event
	n    int
	syms []string
	Init bool // assumed while executing package initialisers: kept only when relevant
	Cut  bool // loop cut marker: older quantified assumptions are dropped
	Keep bool   // survives loop cuts (frame facts about a heap version: valid for the rest of the path)
	Tag  string // loop invariant this assumption came from ("<fn>#L<ord>/inv#<j>")
}

// curTag tags the assumptions made while a loop invariant is being assumed.
var curTag string

// curKeep marks the assumptions being made as surviving later loop cuts.
var curKeep bool

var inInitPhase bool

// keySymbol: nullary constants and literal references link an init-time
// assumption to a query; function symbols and small numbers do not.
func keySymbol(s string) bool {
	if isIntLit(s) {
		_, ok := initFacts[s]
		return ok
	}
	if si, ok := symbols[s]; ok {
		return strings.HasPrefix(si.decl, "(declare-const")
	}
	return false
}

func (e *Event) symbols() []string {
	if e.syms == nil {
		m := map[string]bool{}
		collectSymbols(e.Text, m)
		e.syms = make([]string, 0, len(m))
		for k := range m {
			e.syms = append(e.syms, k)
		}
	}
	return e.syms
}

var factSyms = map[string][]string{}

func symbolsOfFact(f string) []string {
	if s, ok := factSyms[f]; ok {
		return s
	}
	m := map[string]bool{}
	collectSymbols(f, m)
	out := make([]string, 0, len(m))
	for k := range m {
		out = append(out, k)
	}
	factSymsMu.Lock()
	factSyms[f] = out
	factSymsMu.Unlock()
	return out
}

var factSymsMu sync.Mutex

// Check is one obligation instance generated on a path.
type Check struct {
	Name   string // structural obligation name
	Goal   T
	At     *Event // events before the check
	Where  string // source position (informational)
	Fn     string
	Detail string
	Cover  bool // a reachability cover (expect sat) rather than an obligation
	Canary bool // must not be unsat
	Focus  string // loop invariant this check re-establishes (see Event.Tag)
	AltGoal T     // stronger goal used at the focus level (quantified earlier invariants dropped from the antecedent)
	AltGoal2 T    // the same, keeping the simple quantified earlier invariants (level 31)
	body   string
}

func (c *Check) Script(timeoutMs int, forCvc5 bool) string {
	return c.ScriptLevel(timeoutMs, forCvc5, -1)
}

// ScriptLevel builds the query with quantified assumptions filtered by
// relevance to the goal (level 0, 1, ...; -1 = everything). Dropping
// assumptions is sound: only an `unsat` answer is used from a filtered query.
func (c *Check) ScriptLevel(timeoutMs int, forCvc5 bool, level int) string {
	var body string
	if level < 0 {
		if c.body == "" {
			c.body = c.buildBody(-1)
		}
		body = c.body
	} else {
		body = c.buildBody(level)
	}
	var b strings.Builder
	if forCvc5 {
		b.WriteString("(set-option :produce-models true)\n(set-logic ALL)\n")
	} else {
		fmt.Fprintf(&b, "(set-option :timeout %d)\n", timeoutMs)
	}
	b.WriteString(body)
	return b.String()
}

func rareSymbol(s string) bool {
	if _, ok := symbols[s]; !ok {
		return false
	}
	if strings.HasPrefix(s, "|H") || strings.HasPrefix(s, "|M") || strings.HasPrefix(s, "|G") || strings.HasPrefix(s, "next") || s == "frame.r" {
		return false
	}
	return true
}

func (c *Check) buildBody(level int) string {
	var evs []*Event
	for e := c.At; e != nil; e = e.prev {
		evs = append(evs, e)
	}
	// slicing: a definition is kept only when its constant is used; an init
	// fact is added only when its literal reference occurs
	used := map[string]bool{}
	var work []string
	add := func(sym string) {
		if !used[sym] {
			used[sym] = true
			work = append(work, sym)
		}
	}
	if !c.Cover {
		gs := map[string]bool{}
		collectSymbols(c.Goal.S, gs)
		for k := range gs {
			add(k)
		}
	}
	keep := make([]bool, len(evs))
	defIdx := map[string]int{}
	bySym := map[string][]int{}
	cutSeen := false
	dropQ := map[int]bool{}
	if level >= 0 && !c.Cover {
		rel := map[string]bool{}
		gs := map[string]bool{}
		collectSymbols(c.Goal.S, gs)
		for k := range gs {
			if rareSymbol(k) {
				rel[k] = true
			}
		}
		var quant []int
		cs := false
		for i, e := range evs {
			if e.Cut {
				cs = true
				continue
			}
			if e.Def == "" && strings.Contains(e.Text, "(forall ") {
				if cs && !e.Keep {
					continue
				}
				quant = append(quant, i)
				dropQ[i] = true
			}
		}
		for round := 0; round <= level%10; round++ {
			var added []string
			for _, i := range quant {
				if !dropQ[i] {
					continue
				}
				for _, sy := range evs[i].symbols() {
					if rel[sy] {
						dropQ[i] = false
						for _, s2 := range evs[i].symbols() {
							if rareSymbol(s2) {
								added = append(added, s2)
							}
						}
						break
					}
				}
			}
			for _, a := range added {
				rel[a] = true
			}
		}
	}
	focus := level >= 30 && c.Focus != ""
	for i, e := range evs { // newest first
		if e.Cut {
			cutSeen = true
			continue
		}
		if cutSeen && e.Def == "" && strings.Contains(e.Text, "(forall ") && !e.Keep {
			continue
		}
		if dropQ[i] {
			continue
		}
		if focus && e.Tag != "" && e.Tag != c.Focus && e.Def == "" && strings.Contains(e.Text, "(forall ") {
			// focus level 30: of the loop's quantified invariants only the one being re-established is kept;
			// level 31 also keeps the simple ones (a single universal quantifier, no existential)
			if level < 31 || !simpleQuant(e.Text) {
				continue
			}
		}
		switch {
		case e.Def != "":
			defIdx[e.Def] = i
		case e.Init:
			for _, sy := range e.symbols() {
				if keySymbol(sy) {
					bySym[sy] = append(bySym[sy], i)
				}
			}
		default:
			keep[i] = true
			for _, sy := range e.symbols() {
				add(sy)
			}
		}
	}
	var facts []string
	for len(work) > 0 {
		sym := work[len(work)-1]
		work = work[:len(work)-1]
		if i, ok := defIdx[sym]; ok && !keep[i] {
			keep[i] = true
			for _, sy := range evs[i].symbols() {
				add(sy)
			}
		}
		for _, i := range bySym[sym] {
			if !keep[i] {
				keep[i] = true
				for _, sy := range evs[i].symbols() {
					add(sy)
				}
			}
		}
		if fs, ok := initFacts[sym]; ok {
			for _, f := range fs {
				facts = append(facts, f)
				for _, sy := range symbolsOfFact(f) {
					add(sy)
				}
			}
		}
	}
	sort.Strings(facts)
	var body strings.Builder
	for _, f := range facts {
		body.WriteString("(assert ")
		body.WriteString(f)
		body.WriteString(")\n")
	}
	for i := len(evs) - 1; i >= 0; i-- {
		if !keep[i] || evs[i].Cut {
			continue
		}
		e := evs[i]
		body.WriteString("(assert ")
		body.WriteString(e.Text)
		body.WriteString(")\n")
	}
	if c.Cover {
		body.WriteString("(check-sat)\n")
	} else {
		goal := c.Goal.S
		if focus && c.AltGoal.S != "" {
			goal = c.AltGoal.S
			if level >= 31 && c.AltGoal2.S != "" {
				goal = c.AltGoal2.S
			}
		}
		body.WriteString("(assert (not ")
		body.WriteString(goal)
		body.WriteString("))\n(check-sat)\n(get-model)\n")
	}
	decls, axs := declsFor(body.String(), level)
	var b strings.Builder
	b.WriteString(sortPrelude())
	b.WriteString(decls)
	b.WriteString(axs)
	b.WriteString(body.String())
	return b.String()
}

func (c *Check) Hash() string {
	h := sha256.New()
	if c.body == "" {
		c.body = c.buildBody(-1)
	}
	h.Write([]byte(c.body))
	if c.Cover {
		h.Write([]byte("cover"))
	}
	return hex.EncodeToString(h.Sum(nil))[:24]
}

// ---------------------------------------------------------------------------
// Solvers.

type SolverResult struct {
	Status string // unsat | sat | unknown | timeout | error
	Solver string
	Output string
	Secs   float64
}

type solverSpec struct {
	name string
	argv func(timeoutMs int) []string
	cvc5 bool
}

var solvers = []solverSpec{
	{"z3-5.1.0", func(t int) []string { return []string{"z3-new", "-in", "-smt2"} }, false},
	{"z3-5.1.0/arith2", func(t int) []string { return []string{"z3-new", "-in", "-smt2", "smt.arith.solver=2"} }, false},
	{"z3-4.8.12", func(t int) []string { return []string{"/usr/bin/z3", "-in", "-smt2"} }, false},
	{"cvc5-1.0", func(t int) []string {
		return []string{"cvc5", "--lang=smt2", fmt.Sprintf("--tlimit=%d", t), "--strings-exp"}
	}, true},
}

func runSolver(sp solverSpec, c *Check, timeoutMs int, seed int) SolverResult {
	return runSolverLevel(sp, c, timeoutMs, seed, -1)
}

func runSolverLevel(sp solverSpec, c *Check, timeoutMs int, seed int, level int) SolverResult {
	script := c.ScriptLevel(timeoutMs, sp.cvc5, level)
	if seed != 0 && !sp.cvc5 {
		script = fmt.Sprintf("(set-option :smt.random_seed %d)\n", seed) + script
	}
	argv := sp.argv(timeoutMs)
	if seed != 0 && sp.cvc5 {
		argv = append(argv, fmt.Sprintf("--seed=%d", seed))
	}
	ctx, cancel := context.WithTimeout(context.Background(), time.Duration(timeoutMs+2000)*time.Millisecond)
	defer cancel()
	cmd := exec.CommandContext(ctx, argv[0], argv[1:]...)
	cmd.Stdin = strings.NewReader(script)
	var out bytes.Buffer
	cmd.Stdout = &out
	cmd.Stderr = &out
	t0 := time.Now()
	_ = cmd.Run()
	secs := time.Since(t0).Seconds()
	o := out.String()
	first := strings.TrimSpace(o)
	if i := strings.IndexByte(first, '\n'); i >= 0 {
		first = first[:i]
	}
	st := "error"
	switch {
	case first == "unsat":
		st = "unsat"
	case first == "sat":
		st = "sat"
	case first == "unknown":
		st = "unknown"
		if strings.Contains(o, "timeout") || secs*1000 >= float64(timeoutMs) {
			st = "timeout"
		}
	case ctx.Err() != nil || strings.Contains(first, "timeout") || strings.Contains(first, "interrupted"):
		st = "timeout"
	}
	if len(o) > 20000 {
		o = o[:20000] + "\n...[truncated]"
	}
	return SolverResult{Status: st, Solver: sp.name, Output: o, Secs: secs}
}

// ---------------------------------------------------------------------------
// Sort prelude: datatypes registered on demand.

var (
	sortDecls    []string
	sortDeclSeen = map[string]bool{}
)

func registerSortDecl(key, decl string) {
	if sortDeclSeen[key] {
		return
	}
	sortDeclSeen[key] = true
	sortDecls = append(sortDecls, decl)
}

func sortPrelude() string {
	var b strings.Builder
	b.WriteString("(declare-datatypes ((Slice 0)) (((mk-slice (s-arr Int) (s-off Int) (s-len Int) (s-cap Int)))))\n")
	b.WriteString("(declare-datatypes ((Iface 0)) (((mk-iface (i-tag Int) (i-pl Int)))))\n")
	b.WriteString("(declare-datatypes ((XF 0)) (((xf-fin (xf-val Real)) (xf-pinf) (xf-ninf) (xf-nan))))\n")
	for _, d := range sortDecls {
		b.WriteString(d)
		b.WriteByte('\n')
	}
	return b.String()
}

func sortedKeys[V any](m map[string]V) []string {
	ks := make([]string, 0, len(m))
	for k := range m {
		ks = append(ks, k)
	}
	sort.Strings(ks)
	return ks
}

// arithmetic with constant folding on literals
func addT(a, b T) T {
	x, ok1 := smallConstBig(a)
	y, ok2 := smallConstBig(b)
	if ok1 && ok2 {
		return mkBig(new(big.Int).Add(x, y))
	}
	if ok1 && x.Sign() == 0 {
		return b
	}
	if ok2 && y.Sign() == 0 {
		return a
	}
	return app(SInt, "+", a, b)
}

func subT(a, b T) T {
	x, ok1 := smallConstBig(a)
	y, ok2 := smallConstBig(b)
	if ok1 && ok2 {
		return mkBig(new(big.Int).Sub(x, y))
	}
	if ok2 && y.Sign() == 0 {
		return a
	}
	return app(SInt, "-", a, b)
}

// simpleQuant: one universal quantifier and no existential one.
func simpleQuant(s string) bool {
	return strings.Count(s, "(forall ") == 1 && !strings.Contains(s, "(exists ")
}

// ixT is the index of element i of a slice that starts at offset off of its backing array.
// It is off+i, but written with the uninterpreted function "ix" (axiom: ix(o,i) = o+i) unless the
// offset is a literal: quantifier triggers then contain (ix off j) and match the ground index terms
// syntactically; with a bare (+ off j) the solver's reordering of sums makes triggers miss.
func ixT(off, i T) T {
	if _, ok := smallConstBig(off); ok {
		return addT(off, i)
	}
	ix := declFun("ix", []string{SInt, SInt}, SInt)
	addAxiom("ix definition", []string{ix}, fmt.Sprintf("(forall ((o Int) (i Int)) (! (= (%s o i) (+ o i)) :pattern ((%s o i))))", ix, ix))
	return app(SInt, ix, off, i)
}
