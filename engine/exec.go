package main

import (
	"os"
	"fmt"
	"go/constant"
	"go/token"
	"go/types"
	"math/big"
	"strings"

	"golang.org/x/tools/go/packages"
	"golang.org/x/tools/go/ssa"
)

type outsideSubset struct{ msg string }

func (e outsideSubset) Error() string { return e.msg }

func unsupported(format string, args ...interface{}) {
	panic(outsideSubset{fmt.Sprintf(format, args...)})
}

// Exec is the VC generator for one run.
type Exec struct {
	prog     *ssa.Program
	pkgs     map[string]*packages.Package
	ssaPkgs  map[string]*ssa.Package
	fset     *token.FileSet
	specs    map[string]*SpecFile // by package path ("" = external)
	extSpecs []*SpecFile
	contracts map[string]*Contract
	variants  map[string][]*Contract
	reachLogMemo map[*ssa.Function][]string
	unknownCode  bool
	lastAxiomPattern string
	softErr          string
	ghosts   map[string]*GhostFunc

	checks   []*Check
	notes    map[string]bool // assumptions / warnings collected
	used     map[string]bool // external contracts used
	curFn    *ssa.Function
	curC     *Contract
	paths    int
	maxPaths int
	covers   int
	retPaths int
	loopsOf  map[*ssa.Function]*loopInfo
	inlineDepth int
	dry       int
	dryRec    *modRecorder
	dryHeader *ssa.BasicBlock
	dryBase   *State
	dryFrame  *Frame
	loopFrameHeaps map[*ssa.BasicBlock][]string
	funcVals  map[string]*ssa.Function
	ghostFields map[string]*GhostField
	fnInfos   map[string]*fnInfo
	baseCtr int // value of the fresh-symbol counter after the package initialisers ran
	nextFocus string // tag given to the next checks (loop invariant being re-established)
	nextAltGoal2 T
	nextAltGoal T // the same goal with only the ground earlier invariants as antecedent (focus level)
	immutableFields map[string]bool // "pkgpath.T.f"
	objInvs map[string]*ObjInv // "pkgpath.T"
	onAllocs map[string]*OnAlloc // "pkgpath.T"
	immutableHeaps  map[string]bool // heap names excluded from wholesale havoc
	immutableViolations map[string]string
	protected map[string]Protected // "pkgpath.T.f"
	definingGhost map[string]bool
	axiomNames []string
	lemmaErrs  []string
	initBase  *State
	immutable map[*ssa.Global]bool
	inInit    bool
}

func (x *Exec) note(format string, args ...interface{}) {
	x.notes[fmt.Sprintf(format, args...)] = true
}

func (x *Exec) pos(p token.Pos) string {
	if !p.IsValid() {
		return ""
	}
	ps := x.fset.Position(p)
	return fmt.Sprintf("%s:%d", strings.TrimPrefix(ps.Filename, repoDir+"/"), ps.Line)
}

// Frame is one (possibly inlined) function activation.
type Frame struct {
	fn       *ssa.Function
	contract *Contract
	parent   *Frame
	onReturn func(st *State, results []Val)
	pre      *State
	env      map[string]SV // parameter bindings for contract evaluation
	depth    int
	ndefer   int // index into st.defers where this frame's defers start
	entryNext T
}

func (x *Exec) addCheck(st *State, fr *Frame, kind string, goal T, pos token.Pos, detail string) {
	if goal.S == "true" || x.dry > 0 {
		return
	}
	top := fr
	for top.parent != nil {
		top = top.parent
	}
	name := funcDisplayName(top.fn) + "/" + kind
	x.checks = append(x.checks, &Check{Name: name, Goal: goal, At: st.ev, Where: x.pos(pos), Fn: top.fn.String(), Detail: detail, Focus: x.nextFocus, AltGoal: x.nextAltGoal, AltGoal2: x.nextAltGoal2})
}

// require emits a check and then assumes the goal on the continuing path.
func (x *Exec) require(st *State, fr *Frame, kind string, goal T, pos token.Pos, detail string) {
	if top := topFrame(fr); top.contract != nil && top.contract.Flags["recovers"] && strings.HasPrefix(kind, "nopanic/") && goal.S != "true" && x.dry == 0 {
		// the function recovers from its own run-time panics: the failing case is a panicking path, not an obligation
		ps := st.clone()
		ps.assume(not(goal))
		x.paths++
		x.unwindWith(ps, fr, pos, detail)
		st.assume(goal)
		return
	}
	x.addCheck(st, fr, kind, goal, pos, detail)
	st.assume(goal)
}

func funcDisplayName(f *ssa.Function) string {
	s := f.String()
	s = strings.ReplaceAll(s, repoPrefix, "")
	return s
}

// ---------------------------------------------------------------------------
// Values

func (x *Exec) constVal(c *ssa.Const) Val {
	t := c.Type()
	if c.Value == nil {
		return Val{T: zeroOf(t), typ: t}
	}
	switch u := t.Underlying().(type) {
	case *types.Basic:
		switch {
		case u.Info()&types.IsBoolean != 0:
			return Val{T: mkBool(constant.BoolVal(c.Value)), typ: t}
		case u.Info()&types.IsString != 0:
			return Val{T: smtString(constant.StringVal(c.Value)), typ: t}
		case u.Info()&types.IsInteger != 0:
			b, ok := new(big.Int).SetString(constant.ToInt(c.Value).ExactString(), 10)
			if !ok {
				unsupported("integer constant %s", c.Value)
			}
			return Val{T: mkBig(b), typ: t}
		case u.Info()&types.IsFloat != 0:
			f, _ := constant.Float64Val(c.Value)
			return Val{T: T{fmt.Sprintf("(xf-fin %s)", realLit(f)), SFloat}, typ: t}
		}
	}
	unsupported("constant %s of type %s", c, t)
	return Val{}
}

func (x *Exec) val(st *State, v ssa.Value) Val {
	switch c := v.(type) {
	case *ssa.Const:
		return x.constVal(c)
	case *ssa.Global:
		t := deref(c.Type())
		return Val{addr: &Addr{kind: aGlobal, glob: c, rootT: t, typ: t}, typ: c.Type()}
	case *ssa.Function:
		x.funcVals[c.String()] = c
		return Val{T: mkInt(int64(funcID(c))), typ: c.Type(), fn: &FnVal{fn: c}}
	case *ssa.Builtin:
		unsupported("builtin %s used as a value", c.Name())
	}
	if r, ok := st.vals[v]; ok {
		return r
	}
	unsupported("no value for %s (%T) in %s", v.Name(), v, x.curFn)
	return Val{}
}

// term returns the first-class SMT value of an SSA value.
func (x *Exec) term(st *State, v ssa.Value) T {
	return x.materialize(st, x.val(st, v))
}

func (x *Exec) materialize(st *State, val Val) T {
	if val.addr == nil {
		if val.T.S == "" {
			unsupported("value without a term (tuple?)")
		}
		return val.T
	}
	a := val.addr
	if len(a.path) == 0 {
		switch a.kind {
		case aStruct, aCell:
			return a.root
		case aElem:
			// pointer to a slice element
			f := declFun("eaddr", []string{SInt, SInt}, SInt)
			x.note("interior pointers (to slice elements / fields) passed as values are abstract tokens")
			return app(SInt, f, a.root, a.idx)
		case aGlobal:
			return declConst("&G "+a.glob.String(), SInt)
		case aLocal:
			unsupported("address of local %s escapes", a.alloc.Comment)
		}
	}
	// interior pointer
	x.note("interior pointers (to slice elements / fields) passed as values are abstract tokens")
	var root T
	switch a.kind {
	case aStruct, aCell:
		root = a.root
	case aGlobal:
		root = declConst("&G "+a.glob.String(), SInt)
	case aElem:
		root = app(SInt, declFun("eaddr", []string{SInt, SInt}, SInt), a.root, a.idx)
	default:
		unsupported("address of a part of local %s escapes", a.alloc.Comment)
	}
	key := pathKey(a.path)
	f := declFun("faddr", []string{SInt, SInt}, SInt)
	// the address of a part of an object is as old as the object: parts of objects allocated by the
	// verified function are outside every frame, parts of older objects inside
	addAxiom("faddr age", []string{f}, fmt.Sprintf("(forall ((r Int) (i Int)) (! (and (< 0 (%s r i)) (= (< (%s r i) %s) (< r %s))) :pattern ((%s r i))))", f, f, entryNextSym().S, entryNextSym().S, f))
	id := int64(typeTag(types.NewPointer(a.typ))*1000) + int64(pathHash(key))
	return app(SInt, f, root, mkInt(id))
}

func pathKey(p []pstep) string {
	var b strings.Builder
	for _, s := range p {
		if s.isIndex {
			b.WriteString("[" + s.index.S + "]")
		} else {
			fmt.Fprintf(&b, ".%d", s.field)
		}
	}
	return b.String()
}

func pathHash(s string) int {
	h := 0
	for i := 0; i < len(s); i++ {
		h = (h*31 + int(s[i])) % 997
	}
	return h
}

// ptrAddr turns a pointer-typed SSA value into an address.
func (x *Exec) ptrAddr(st *State, fr *Frame, v ssa.Value, pos token.Pos) *Addr {
	val := x.val(st, v)
	if val.addr != nil {
		return val.addr
	}
	pt, ok := v.Type().Underlying().(*types.Pointer)
	if !ok {
		unsupported("dereference of non-pointer %s", v.Type())
	}
	x.require(st, fr, "nopanic/nil", not(eq(val.T, mkInt(0))), pos, "nil pointer dereference of "+v.Name())
	return refAddr(val.T, pt.Elem())
}

func refAddr(ref T, elem types.Type) *Addr {
	if isStruct(elem) {
		return &Addr{kind: aStruct, root: ref, rootT: elem, typ: elem}
	}
	if arr, ok := elem.Underlying().(*types.Array); ok {
		_ = arr
		return &Addr{kind: aCell, root: ref, rootT: elem, typ: elem}
	}
	return &Addr{kind: aCell, root: ref, rootT: elem, typ: elem}
}

// ---------------------------------------------------------------------------
// Running

func (x *Exec) runBlock(st *State, fr *Frame, b *ssa.BasicBlock) {
	if x.paths > x.maxPaths {
		unsupported("path limit exceeded (%d) in %s: needs splitting", x.maxPaths, x.curFn)
	}
	if !x.enterBlock(st, fr, b) {
		return
	}
	x.runFrom(st, fr, b, 0)
}

func (x *Exec) runFrom(st *State, fr *Frame, b *ssa.BasicBlock, idx int) {
	for i := idx; i < len(b.Instrs); i++ {
		ins := b.Instrs[i]
		switch v := ins.(type) {
		case *ssa.If:
			c := x.term(st, v.Cond)
			if c.S != "false" {
				s1 := st
				if c.S != "true" {
					s1 = st.clone()
				}
				s1.assume(c)
				s1.prevBlock = b
				x.runBlock(s1, fr, b.Succs[0])
			}
			if c.S != "true" {
				st.assume(not(c))
				st.prevBlock = b
				x.runBlock(st, fr, b.Succs[1])
			}
			return
		case *ssa.Jump:
			st.prevBlock = b
			x.runBlock(st, fr, b.Succs[0])
			return
		case *ssa.Return:
			var res []Val
			for _, r := range v.Results {
				val := x.val(st, r)
				res = append(res, Val{T: x.materialize(st, val), typ: r.Type(), fn: val.fn})
			}
			x.doReturn(st, fr, res, v.Pos())
			return
		case *ssa.Panic:
			x.doPanic(st, fr, v)
			return
		case *ssa.Call:
			done := x.doCall(st, fr, v, v.Common(), func(st2 *State, res Val) {
				st2.vals[v] = res
				x.runFrom(st2, fr, b, i+1)
			})
			if done {
				return
			}
		case *ssa.RunDefers:
			x.runDefers(st, fr, func(st2 *State) {
				x.runFrom(st2, fr, b, i+1)
			})
			return
		default:
			x.step(st, fr, ins)
		}
	}
}

func (x *Exec) step(st *State, fr *Frame, ins ssa.Instruction) {
	switch v := ins.(type) {
	case *ssa.DebugRef:
	case *ssa.Alloc:
		x.doAlloc(st, v)
	case *ssa.Store:
		if pv := x.val(st, v.Addr); pv.prot != nil {
			x.lockCheck(st, fr, pv.prot, true, v.Pos(), "write of "+pv.prot.field)
		}
		a := x.ptrAddr(st, fr, v.Addr, v.Pos())
		st.store(a, x.term(st, v.Val))
		if key, heap, ok := st.cellKey(a); ok {
			if val := x.val(st, v.Val); val.boxed != nil {
				if st.boxAt == nil {
					st.boxAt = map[string]boxRec{}
				}
				st.boxAt[key] = boxRec{b: val.boxed, heap: heap}
			} else if st.boxAt != nil {
				delete(st.boxAt, key)
			}
		}
		if val := x.val(st, v.Val); val.fn != nil {
			st.closures[x.term(st, v.Val).S] = val.fn
		}
	case *ssa.UnOp:
		x.doUnOp(st, fr, v)
	case *ssa.BinOp:
		r := x.binop(st, fr, v.Op, v.X, v.Y, v.Type(), v.Pos())
		if r.Sort == SInt && strings.HasPrefix(r.S, "(") {
			// name arithmetic results: index terms then have the shape (+ off c) that quantifier triggers match
			// (the value is wrapped in the identity function "idx": solvers substitute the defining
			// equation, and without the wrapper the sum would be flattened into the index term again)
			c := fresh(v.Name(), SInt)
			idx := declFun("idx", []string{SInt}, SInt)
			addAxiom("idx identity", []string{idx}, fmt.Sprintf("(forall ((x Int)) (! (= (%s x) x) :pattern ((%s x))))", idx, idx))
			st.define(c, app(SInt, idx, r))
			r = c
		} else {
			r = st.name(v.Name(), r)
		}
		st.vals[v] = Val{T: r, typ: v.Type()}
	case *ssa.FieldAddr:
		base := x.ptrAddr(st, fr, v.X, v.Pos())
		stt := deref(v.X.Type())
		f := stt.Underlying().(*types.Struct).Field(v.Field)
		res := Val{addr: base.extend(pstep{field: v.Field, cont: stt}, f.Type()), typ: v.Type()}
		if pv := x.val(st, v.X); pv.prot != nil {
			res.prot = pv.prot
		}
		if len(x.protected) > 0 {
			if n, ok := stt.(*types.Named); ok && n.Obj().Pkg() != nil {
				if pr, ok := x.protected[n.Obj().Pkg().Path()+"."+n.Obj().Name()+"."+f.Name()]; ok && base.kind == aStruct && len(base.path) == 0 {
					res.prot = x.protInfoFor(st, base.root, stt, pr, f.Name())
				}
			}
		}
		st.vals[v] = res
	case *ssa.Field:
		xv := x.term(st, v.X)
		st.vals[v] = Val{T: structField(v.X.Type(), xv, v.Field), typ: v.Type()}
	case *ssa.IndexAddr:
		x.doIndexAddr(st, fr, v)
	case *ssa.Index:
		x.doIndex(st, fr, v)
	case *ssa.Lookup:
		x.doLookup(st, fr, v)
	case *ssa.MapUpdate:
		x.doMapUpdate(st, fr, v)
	case *ssa.Slice:
		x.doSlice(st, fr, v)
	case *ssa.MakeSlice:
		ln := x.term(st, v.Len)
		cp := x.term(st, v.Cap)
		x.require(st, fr, "nopanic/makeslice", and(app(SBool, "<=", mkInt(0), ln), app(SBool, "<=", ln, cp)), v.Pos(), "makeslice: len out of range")
		el := v.Type().Underlying().(*types.Slice).Elem()
		r := st.allocate("mk")
		h := st.arrHeap(el)
		zs := arraySort(SInt, sortOf(el))
		st.setHeap(arrHeapName(el), store(h, r, T{fmt.Sprintf("((as const %s) %s)", zs, zeroOf(el).S), zs}))
		st.vals[v] = Val{T: mkSlice(r, mkInt(0), ln, cp), typ: v.Type()}
		st.ghost["alloc.max"] = ite(app(SBool, ">", ln, x.ghostInt(st, "alloc.max")), ln, x.ghostInt(st, "alloc.max"))
	case *ssa.MakeMap:
		r := st.allocate("map")
		mt := v.Type()
		ks := sortOf(mt.Underlying().(*types.Map).Key())
		ds := arraySort(ks, SBool)
		st.setHeap(mapDomName(mt), store(st.mapDom(mt), r, T{fmt.Sprintf("((as const %s) false)", ds), ds}))
		st.vals[v] = Val{T: r, typ: mt}
	case *ssa.MakeInterface:
		x.allocHook(st, v.X)
		xv := x.val(st, v.X)
		t, facts := boxIface(x.materialize(st, xv), v.X.Type())
		for _, f := range facts {
			st.assume(f)
		}
		bx := xv
		bx.T = x.materialize(st, xv)
		bx.typ = v.X.Type()
		st.vals[v] = Val{T: t, typ: v.Type(), fn: xv.fn, boxed: &bx}
		if st.boxes == nil {
			st.boxes = map[string]*Val{}
		}
		st.boxes[t.S] = &bx
	case *ssa.MakeClosure:
		fn := v.Fn.(*ssa.Function)
		fv := &FnVal{fn: fn}
		for _, b := range v.Bindings {
			fv.bindings = append(fv.bindings, x.val(st, b))
		}
		r := st.allocate("clo")
		st.closures[r.S] = fv
		if strings.HasSuffix(fn.Name(), "$bound") && len(v.Bindings) == 1 {
			// method value: remember receiver and method for contracts
			rf := declFun("ghost closureRecv", []string{SInt}, SInt)
			nf := declFun("ghost closureName", []string{SInt}, SString)
			st.assume(eq(app(SInt, rf, r), x.term(st, v.Bindings[0])))
			st.assume(eq(app(SString, nf, r), smtString(fn.Name())))
		}
		st.vals[v] = Val{T: r, typ: v.Type(), fn: fv}
	case *ssa.ChangeType:
		xv := x.val(st, v.X)
		st.vals[v] = Val{T: x.materialize(st, xv), typ: v.Type(), fn: xv.fn}
	case *ssa.ChangeInterface:
		st.vals[v] = Val{T: x.term(st, v.X), typ: v.Type()}
	case *ssa.Convert:
		st.vals[v] = Val{T: x.convert(st, fr, v), typ: v.Type()}
	case *ssa.TypeAssert:
		x.doTypeAssert(st, fr, v)
	case *ssa.Extract:
		tv := x.val(st, v.Tuple)
		if v.Index >= len(tv.tuple) {
			unsupported("extract %d of %d-tuple", v.Index, len(tv.tuple))
		}
		st.vals[v] = tv.tuple[v.Index]
	case *ssa.Phi:
		found := false
		for i, p := range v.Block().Preds {
			if p == st.prevBlock {
				ev := x.val(st, v.Edges[i])
				st.vals[v] = Val{T: x.materialize(st, ev), typ: v.Type(), fn: ev.fn}
				found = true
				break
			}
		}
		if !found {
			unsupported("phi without matching predecessor")
		}
	case *ssa.Defer:
		d := deferred{call: v.Common(), pos: x.pos(v.Pos())}
		if !v.Common().IsInvoke() {
			if _, isB := v.Common().Value.(*ssa.Builtin); !isB {
				d.fnv = x.val(st, v.Common().Value)
			}
		} else {
			d.fnv = x.val(st, v.Common().Value)
		}
		for _, a := range v.Common().Args {
			av := x.val(st, a)
			d.args = append(d.args, Val{T: x.materialize(st, av), typ: a.Type(), fn: av.fn})
		}
		st.defers = append(st.defers, d)
	case *ssa.Range:
		x.doRange(st, fr, v)
	case *ssa.Next:
		x.doNext(st, fr, v)
	case *ssa.Go, *ssa.Send, *ssa.Select, *ssa.MakeChan:
		unsupported("%T is outside the verified subset", ins)
	default:
		unsupported("instruction %T (%s) not supported", ins, ins)
	}
}

func (x *Exec) ghostInt(st *State, name string) T {
	if g, ok := st.ghost[name]; ok {
		return g
	}
	return mkInt(0)
}

func (x *Exec) doAlloc(st *State, v *ssa.Alloc) {
	t := deref(v.Type())
	if !v.Heap {
		st.cells[v] = zeroOf(t)
		st.vals[v] = Val{addr: &Addr{kind: aLocal, alloc: v, rootT: t, typ: t}, typ: v.Type()}
		return
	}
	r := st.allocate("new")
	switch {
	case isStruct(t):
		for _, l := range structLeaves(t) {
			st.setHeap(fieldHeapName(t, l.name()), store(st.fieldHeap(t, l), r, zeroOf(l.typ)))
		}
	default:
		if arr, ok := t.Underlying().(*types.Array); ok {
			// arrays allocated with new live in the slice backing-store heap
			h := st.arrHeap(arr.Elem())
			zs := arraySort(SInt, sortOf(arr.Elem()))
			st.setHeap(arrHeapName(arr.Elem()), store(h, r, T{fmt.Sprintf("((as const %s) %s)", zs, zeroOf(arr.Elem()).S), zs}))
		} else {
			st.setHeap(cellHeapName(t), store(st.cellHeap(t), r, zeroOf(t)))
		}
	}
	st.vals[v] = Val{T: r, typ: v.Type()}
	x.zeroMutexes(st, r, t)
}

// zeroMutexes: the mutexes inside a freshly allocated object are unlocked (ghost field mstate = 0 at their addresses).
func (x *Exec) zeroMutexes(st *State, r T, t types.Type) {
	isMutex := func(t types.Type) bool {
		n, ok := t.(*types.Named)
		return ok && n.Obj().Pkg() != nil && n.Obj().Pkg().Path() == "sync" && (n.Obj().Name() == "Mutex" || n.Obj().Name() == "RWMutex")
	}
	setZero := func(addr T) {
		h, ok := st.heaps["Gf mstate"]
		if !ok {
			h = declConst("Gf mstate", arraySort(SInt, SInt))
		}
		st.setHeap("Gf mstate", store(h, addr, mkInt(0)))
	}
	if isMutex(t) {
		setZero(r)
		return
	}
	var walk func(t types.Type, path []pstep, depth int)
	walk = func(t types.Type, path []pstep, depth int) {
		u, ok := t.Underlying().(*types.Struct)
		if !ok || depth > 4 {
			return
		}
		for i := 0; i < u.NumFields(); i++ {
			ft := u.Field(i).Type()
			p := append(append([]pstep{}, path...), pstep{field: i, cont: t})
			if isMutex(ft) {
				a := &Addr{kind: aStruct, root: r, rootT: deref(types.NewPointer(t)), path: p, typ: ft}
				if depth > 0 {
					continue // nested structs: addresses are formed from the outermost object; keep it simple
				}
				setZero(x.materialize(st, Val{addr: a}))
				continue
			}
			if _, isS := ft.Underlying().(*types.Struct); isS && !isMutex(ft) {
				walk(ft, p, depth+1)
			}
		}
	}
	if isStruct(t) {
		walk(t, nil, 0)
	}
}

func (x *Exec) doUnOp(st *State, fr *Frame, v *ssa.UnOp) {
	switch v.Op {
	case token.MUL:
		val := x.val(st, v.X)
		var a *Addr
		if val.addr != nil {
			a = val.addr
		} else {
			elem := deref(v.X.Type())
			x.require(st, fr, "nopanic/nil", not(eq(val.T, mkInt(0))), v.Pos(), "nil pointer dereference")
			if arr, ok := elem.Underlying().(*types.Array); ok {
				st.vals[v] = Val{T: sel(st.arrHeap(arr.Elem()), val.T), typ: v.Type()}
				return
			}
			a = refAddr(val.T, elem)
		}
		if val.prot != nil {
			x.lockCheck(st, fr, val.prot, false, v.Pos(), "read of "+val.prot.field)
		}
		t := st.load(a)
		res := Val{T: t, typ: v.Type(), prot: val.prot}
		if key, heap, ok := st.cellKey(a); ok {
			if rec, ok := st.boxAt[key]; ok && rec.heap == heap {
				res.boxed = rec.b
			} else if os.Getenv("VERIF_DEBUG_BOX") != "" && strings.Contains(key, "helperShim") {
				fmt.Fprintf(os.Stderr, "load key=%s found=%v heapEq=%v\n", key, ok, rec.heap == heap)
			}
		} else if os.Getenv("VERIF_DEBUG_BOX") != "" && a != nil && strings.Contains(typeStr(v.Type()), "helperShim") {
			fmt.Fprintf(os.Stderr, "load nokey kind=%d path=%d\n", a.kind, len(a.path))
		}
		if tf := typingFact(v.Type(), t); tf.S != "true" && (a.kind != aLocal) {
			t = st.name(v.Name(), t)
			res.T = t
			st.assume(typingFact(v.Type(), t))
			x.assumeAllocated(st, v.Type(), t)
		}
		if fv, ok := st.closures[t.S]; ok {
			res.fn = fv
		}
		st.vals[v] = res
	case token.NOT:
		st.vals[v] = Val{T: not(x.term(st, v.X)), typ: v.Type()}
	case token.SUB:
		xv := x.term(st, v.X)
		if xv.Sort == SFloat {
			st.vals[v] = Val{T: xfNeg(xv), typ: v.Type()}
			return
		}
		st.vals[v] = Val{T: wrapInt(v.Type(), app(SInt, "-", xv)), typ: v.Type()}
	case token.XOR:
		xv := x.term(st, v.X)
		lo, hi, _ := intRange(v.Type())
		if lo.Sign() == 0 {
			st.vals[v] = Val{T: app(SInt, "-", mkBig(hi), xv), typ: v.Type()}
		} else {
			st.vals[v] = Val{T: app(SInt, "-", app(SInt, "-", xv), mkInt(1)), typ: v.Type()}
		}
	default:
		unsupported("unary operator %s", v.Op)
	}
}

func xfNeg(a T) T {
	return T{fmt.Sprintf("(ite ((_ is xf-fin) %[1]s) (xf-fin (- (xf-val %[1]s))) (ite ((_ is xf-pinf) %[1]s) xf-ninf (ite ((_ is xf-ninf) %[1]s) xf-pinf xf-nan)))", a.S), SFloat}
}

func (x *Exec) doIndexAddr(st *State, fr *Frame, v *ssa.IndexAddr) {
	idx := x.term(st, v.Index)
	switch u := v.X.Type().Underlying().(type) {
	case *types.Slice:
		s := x.term(st, v.X)
		x.require(st, fr, "nopanic/index", and(app(SBool, "<=", mkInt(0), idx), app(SBool, "<", idx, sliceLen(s))), v.Pos(), "index out of range")
		ixv := ixT(sliceOff(s), idx)
		if strings.HasPrefix(ixv.S, "(ix ") || strings.HasPrefix(ixv.S, "(|ix| ") {
			// ground instance of the definition of ix, so arithmetic knows the index without quantifier instantiation
			st.assume(eq(ixv, app(SInt, "+", sliceOff(s), idx)))
		}
		st.vals[v] = Val{addr: &Addr{kind: aElem, root: sliceArr(s), idx: ixv, rootT: u.Elem(), typ: u.Elem()}, typ: v.Type()}
	case *types.Pointer:
		arr := u.Elem().Underlying().(*types.Array)
		x.require(st, fr, "nopanic/index", and(app(SBool, "<=", mkInt(0), idx), app(SBool, "<", idx, mkInt(arr.Len()))), v.Pos(), "array index out of range")
		val := x.val(st, v.X)
		if val.addr != nil {
			st.vals[v] = Val{addr: val.addr.extend(pstep{isIndex: true, index: idx}, arr.Elem()), typ: v.Type()}
			return
		}
		x.require(st, fr, "nopanic/nil", not(eq(val.T, mkInt(0))), v.Pos(), "nil array pointer")
		st.vals[v] = Val{addr: &Addr{kind: aElem, root: val.T, idx: idx, rootT: arr.Elem(), typ: arr.Elem()}, typ: v.Type()}
	default:
		unsupported("IndexAddr on %s", v.X.Type())
	}
}

func (x *Exec) doIndex(st *State, fr *Frame, v *ssa.Index) {
	idx := x.term(st, v.Index)
	xv := x.term(st, v.X)
	switch u := v.X.Type().Underlying().(type) {
	case *types.Array:
		x.require(st, fr, "nopanic/index", and(app(SBool, "<=", mkInt(0), idx), app(SBool, "<", idx, mkInt(u.Len()))), v.Pos(), "array index out of range")
		st.vals[v] = Val{T: sel(xv, idx), typ: v.Type()}
	case *types.Basic:
		x.require(st, fr, "nopanic/index", and(app(SBool, "<=", mkInt(0), idx), app(SBool, "<", idx, app(SInt, "str.len", xv))), v.Pos(), "string index out of range")
		b := st.name(v.Name(), strByte(xv, idx))
		st.assume(and(app(SBool, "<=", mkInt(0), b), app(SBool, "<=", b, mkInt(255))))
		st.vals[v] = Val{T: b, typ: v.Type()}
	default:
		unsupported("Index on %s", v.X.Type())
	}
}

func (x *Exec) doLookup(st *State, fr *Frame, v *ssa.Lookup) {
	xv := x.term(st, v.X)
	k := x.term(st, v.Index)
	switch u := v.X.Type().Underlying().(type) {
	case *types.Map:
		has := and(not(eq(xv, mkInt(0))), sel(sel(st.mapDom(v.X.Type()), xv), k))
		val := st.name(v.Name(), ite(has, sel(sel(st.mapVal(v.X.Type()), xv), k), zeroOf(u.Elem())))
		if tf := typingFact(u.Elem(), val); tf.S != "true" {
			st.assume(tf)
		}
		res := Val{T: val, typ: u.Elem()}
		if fv, ok := st.closures[val.S]; ok {
			res.fn = fv
		}
		if v.CommaOk {
			st.vals[v] = Val{tuple: []Val{res, {T: has, typ: types.Typ[types.Bool]}}, typ: v.Type()}
		} else {
			st.vals[v] = res
		}
	case *types.Basic:
		x.require(st, fr, "nopanic/index", and(app(SBool, "<=", mkInt(0), k), app(SBool, "<", k, app(SInt, "str.len", xv))), v.Pos(), "string index out of range")
		st.vals[v] = Val{T: strByte(xv, k), typ: v.Type()}
	default:
		unsupported("Lookup on %s", v.X.Type())
	}
}

func (x *Exec) doMapUpdate(st *State, fr *Frame, v *ssa.MapUpdate) {
	if pv := x.val(st, v.Map); pv.prot != nil {
		x.lockCheck(st, fr, pv.prot, true, v.Pos(), "update of the map in "+pv.prot.field)
	}
	x.allocHook(st, v.Value)
	m := x.term(st, v.Map)
	k := x.term(st, v.Key)
	val := x.term(st, v.Value)
	mt := v.Map.Type()
	x.require(st, fr, "nopanic/nilmap", not(eq(m, mkInt(0))), v.Pos(), "assignment to entry in nil map")
	d := st.mapDom(mt)
	st.setHeap(mapDomName(mt), store(d, m, store(sel(d, m), k, mkBool(true))))
	mv := st.mapVal(mt)
	st.setHeap(mapValName(mt), store(mv, m, store(sel(mv, m), k, val)))
	if fv := x.val(st, v.Value).fn; fv != nil {
		st.closures[val.S] = fv
	}
}

func (x *Exec) doSlice(st *State, fr *Frame, v *ssa.Slice) {
	var lo, hi, mx T
	hasHi, hasMax := v.High != nil, v.Max != nil
	lo = mkInt(0)
	if v.Low != nil {
		lo = x.term(st, v.Low)
	}
	if hasHi {
		hi = x.term(st, v.High)
	}
	if hasMax {
		mx = x.term(st, v.Max)
	}
	switch u := v.X.Type().Underlying().(type) {
	case *types.Basic: // string
		s := x.term(st, v.X)
		ln := app(SInt, "str.len", s)
		if !hasHi {
			hi = ln
		}
		x.require(st, fr, "nopanic/slice", and(app(SBool, "<=", mkInt(0), lo), app(SBool, "<=", lo, hi), app(SBool, "<=", hi, ln)), v.Pos(), "string slice bounds out of range")
		st.vals[v] = Val{T: st.name(v.Name(), app(SString, "str.substr", s, lo, app(SInt, "-", hi, lo))), typ: v.Type()}
	case *types.Slice:
		s := x.term(st, v.X)
		if !hasHi {
			hi = sliceLen(s)
		}
		capv := sliceCap(s)
		bound := capv
		if hasMax {
			bound = mx
		}
		goal := and(app(SBool, "<=", mkInt(0), lo), app(SBool, "<=", lo, hi), app(SBool, "<=", hi, bound))
		if hasMax {
			goal = and(goal, app(SBool, "<=", mx, capv))
		}
		x.require(st, fr, "nopanic/slice", goal, v.Pos(), "slice bounds out of range")
		newCap := subT(bound, lo)
		// s[lo:hi] of a nil slice stays nil (lo=hi=0)
		st.vals[v] = Val{T: st.name(v.Name(), mkSlice(sliceArr(s), addT(sliceOff(s), lo), subT(hi, lo), newCap)), typ: v.Type()}
	case *types.Pointer:
		arr := u.Elem().Underlying().(*types.Array)
		val := x.val(st, v.X)
		if val.addr != nil {
			unsupported("slicing an array that is not allocated with new (%s)", v.X.Name())
		}
		n := mkInt(arr.Len())
		if !hasHi {
			hi = n
		}
		bound := n
		if hasMax {
			bound = mx
		}
		x.require(st, fr, "nopanic/slice", and(app(SBool, "<=", mkInt(0), lo), app(SBool, "<=", lo, hi), app(SBool, "<=", hi, bound), app(SBool, "<=", bound, n)), v.Pos(), "slice bounds out of range")
		st.vals[v] = Val{T: mkSlice(val.T, lo, subT(hi, lo), subT(bound, lo)), typ: v.Type()}
	default:
		unsupported("Slice of %s", v.X.Type())
	}
}

func (x *Exec) doTypeAssert(st *State, fr *Frame, v *ssa.TypeAssert) {
	xv := x.term(st, v.X)
	var ok T
	var res T
	if types.IsInterface(v.AssertedType) {
		// assertion to an interface type: succeeds iff the dynamic type implements it
		f := declFun("implements", []string{SInt, SInt}, SBool)
		ok = and(not(eq(ifaceTag(xv), mkInt(0))), app(SBool, f, ifaceTag(xv), mkInt(int64(typeTag(v.AssertedType)))))
		// statically known: the static type already implements it
		if types.Implements(v.X.Type(), v.AssertedType.Underlying().(*types.Interface)) {
			ok = not(eq(ifaceTag(xv), mkInt(0)))
		}
		res = xv
	} else {
		ok = eq(ifaceTag(xv), mkInt(int64(typeTag(v.AssertedType))))
		res = unboxIface(xv, v.AssertedType)
	}
	if v.CommaOk {
		okc := st.name(v.Name()+".ok", ok)
		st.vals[v] = Val{tuple: []Val{{T: ite(okc, res, zeroOf(v.AssertedType)), typ: v.AssertedType}, {T: okc, typ: types.Typ[types.Bool]}}, typ: v.Type()}
		return
	}
	x.require(st, fr, "nopanic/assert", ok, v.Pos(), "type assertion may fail: "+v.String())
	st.vals[v] = Val{T: res, typ: v.AssertedType}
}

// ---------------------------------------------------------------------------
// Arithmetic

func isFloat(t types.Type) bool {
	b, ok := t.Underlying().(*types.Basic)
	return ok && b.Info()&types.IsFloat != 0
}

func isString(t types.Type) bool {
	b, ok := t.Underlying().(*types.Basic)
	return ok && b.Info()&types.IsString != 0
}

func isInteger(t types.Type) bool {
	b, ok := t.Underlying().(*types.Basic)
	return ok && b.Info()&types.IsInteger != 0
}

func (x *Exec) binop(st *State, fr *Frame, op token.Token, X, Y ssa.Value, resT types.Type, pos token.Pos) T {
	xv, yv := x.val(st, X), x.val(st, Y)
	a, b := x.materialize(st, xv), x.materialize(st, yv)
	opT := X.Type()
	switch op {
	case token.EQL, token.NEQ:
		var e T
		switch {
		case a.Sort == SFloat:
			e = xfCmp("==", a, b)
		case a.Sort == SSlice:
			// only comparison with nil is legal
			if isNilConst(Y) {
				e = eq(sliceArr(a), mkInt(0))
			} else {
				e = eq(sliceArr(b), mkInt(0))
			}
		case a.Sort == SIface:
			if isNilConst(Y) {
				e = eq(ifaceTag(a), mkInt(0))
			} else if isNilConst(X) {
				e = eq(ifaceTag(b), mkInt(0))
			} else {
				e = eq(a, b)
			}
		default:
			e = eq(a, b)
		}
		if op == token.NEQ {
			return not(e)
		}
		return e
	case token.LSS, token.LEQ, token.GTR, token.GEQ:
		if a.Sort == SFloat {
			return xfCmp(op.String(), a, b)
		}
		if a.Sort == SString {
			ops := map[token.Token]string{token.LSS: "str.<", token.LEQ: "str.<="}
			switch op {
			case token.LSS, token.LEQ:
				return app(SBool, ops[op], a, b)
			case token.GTR:
				return app(SBool, "str.<", b, a)
			default:
				return app(SBool, "str.<=", b, a)
			}
		}
		return app(SBool, op.String(), a, b)
	}
	if isString(opT) && op == token.ADD {
		return app(SString, "str.++", a, b)
	}
	if isFloat(opT) {
		return x.floatOp(op, a, b)
	}
	if a.Sort == SBool { // & | on bools do not occur; &&,|| are control flow
		unsupported("boolean operator %s", op)
	}
	bits, signed := intBits(resT)
	_ = signed
	switch op {
	case token.ADD:
		return x.arith(st, fr, resT, app(SInt, "+", a, b), pos)
	case token.SUB:
		return x.arith(st, fr, resT, app(SInt, "-", a, b), pos)
	case token.MUL:
		return x.arith(st, fr, resT, app(SInt, "*", a, b), pos)
	case token.QUO:
		x.require(st, fr, "nopanic/div0", not(eq(b, mkInt(0))), pos, "division by zero")
		if n, ok := smallConstBig(b); ok && n.Sign() > 0 {
			return truncDiv(a, b) // cannot overflow
		}
		return wrapInt(resT, truncDiv(a, b))
	case token.REM:
		x.require(st, fr, "nopanic/div0", not(eq(b, mkInt(0))), pos, "division by zero")
		return app(SInt, "-", a, app(SInt, "*", b, truncDiv(a, b)))
	case token.SHL:
		if n, ok := smallConst(b); ok {
			return wrapInt(resT, app(SInt, "*", a, mkBig(new(big.Int).Lsh(big.NewInt(1), uint(n)))))
		}
		return wrapInt(resT, app(SInt, "*", a, pow2(b)))
	case token.SHR:
		if n, ok := smallConst(b); ok {
			return app(SInt, "div", a, mkBig(new(big.Int).Lsh(big.NewInt(1), uint(n))))
		}
		return app(SInt, "div", a, pow2(b))
	case token.AND:
		if m, ok := smallConstBig(b); ok && isMask(m) {
			return app(SInt, "mod", a, mkBig(new(big.Int).Add(m, big.NewInt(1))))
		}
		if m, ok := smallConstBig(a); ok && isMask(m) {
			return app(SInt, "mod", b, mkBig(new(big.Int).Add(m, big.NewInt(1))))
		}
		return bitFun("and", bits, a, b)
	case token.OR:
		return bitFun("or", bits, a, b)
	case token.XOR:
		return bitFun("xor", bits, a, b)
	case token.AND_NOT:
		return bitFun("andnot", bits, a, b)
	}
	unsupported("binary operator %s", op)
	return T{}
}

func isMask(m *big.Int) bool {
	if m.Sign() <= 0 {
		return false
	}
	n := new(big.Int).Add(m, big.NewInt(1))
	return new(big.Int).And(n, m).Sign() == 0
}

func pow2(b T) T {
	f := declFun("pow2", []string{SInt}, SInt)
	addAxiom("pow2", []string{f}, fmt.Sprintf("(and (= (%[1]s 0) 1) (= (%[1]s 1) 2) (= (%[1]s 2) 4) (= (%[1]s 3) 8) (= (%[1]s 4) 16) (= (%[1]s 5) 32) (= (%[1]s 6) 64) (= (%[1]s 7) 128) (= (%[1]s 8) 256) (forall ((n Int)) (! (=> (>= n 0) (> (%[1]s n) 0)) :pattern ((%[1]s n)))))", f))
	return app(SInt, f, b)
}

// bitFun models a bitwise operator on non-negative operands < 2^bits. The
// function is defined exactly on {0,1}x{0,1} (the only shape the verified code
// relies on) and bounded otherwise.
func bitFun(op string, bits int, a, b T) T {
	f := declFun("bit"+op, []string{SInt, SInt}, SInt)
	var tbl string
	switch op {
	case "and":
		tbl = fmt.Sprintf("(and (= (%[1]s 0 0) 0) (= (%[1]s 0 1) 0) (= (%[1]s 1 0) 0) (= (%[1]s 1 1) 1) (forall ((a Int) (b Int)) (! (=> (and (>= a 0) (>= b 0)) (and (>= (%[1]s a b) 0) (<= (%[1]s a b) a) (<= (%[1]s a b) b))) :pattern ((%[1]s a b)))))", f)
	case "or":
		tbl = fmt.Sprintf("(and (= (%[1]s 0 0) 0) (= (%[1]s 0 1) 1) (= (%[1]s 1 0) 1) (= (%[1]s 1 1) 1) (forall ((a Int) (b Int)) (! (=> (and (>= a 0) (>= b 0)) (and (>= (%[1]s a b) a) (>= (%[1]s a b) b) (<= (%[1]s a b) (+ a b)))) :pattern ((%[1]s a b)))))", f)
	case "xor":
		tbl = fmt.Sprintf("(and (= (%[1]s 0 0) 0) (= (%[1]s 0 1) 1) (= (%[1]s 1 0) 1) (= (%[1]s 1 1) 0) (forall ((a Int) (b Int)) (! (=> (and (>= a 0) (>= b 0)) (and (>= (%[1]s a b) 0) (<= (%[1]s a b) (+ a b)))) :pattern ((%[1]s a b)))))", f)
	case "andnot":
		tbl = fmt.Sprintf("(and (= (%[1]s 0 0) 0) (= (%[1]s 0 1) 0) (= (%[1]s 1 0) 1) (= (%[1]s 1 1) 0) (forall ((a Int) (b Int)) (! (=> (and (>= a 0) (>= b 0)) (and (>= (%[1]s a b) 0) (<= (%[1]s a b) a))) :pattern ((%[1]s a b)))))", f)
	}
	addAxiom("bit"+op, []string{f}, tbl)
	return app(SInt, f, a, b)
}

func truncDiv(a, b T) T {
	// Go's truncated division from SMT's Euclidean div.
	return T{fmt.Sprintf("(ite (>= %[1]s 0) (div %[1]s %[2]s) (- (div (- %[1]s) %[2]s)))", a.S, b.S), SInt}
}

// arith wraps the result of + - * into the result type. For 64-bit types the
// mathematical result is used (reported as an assumption) unless the contract
// asks for overflow checking.
func (x *Exec) arith(st *State, fr *Frame, t types.Type, v T, pos token.Pos) T {
	bits, _ := intBits(t)
	if bits < 64 {
		return wrapInt(t, v)
	}
	top := fr
	for top.parent != nil {
		top = top.parent
	}
	if top.contract != nil && top.contract.Flags["overflow"] {
		lo, hi, _ := intRange(t)
		x.require(st, fr, "arith/nowrap", and(app(SBool, "<=", mkBig(lo), v), app(SBool, "<=", v, mkBig(hi))), pos, "64-bit arithmetic may wrap")
		return v
	}
	x.note("64-bit integer + - * treated as mathematical (no wrap-around) in functions without flag overflow")
	return v
}

func (x *Exec) convert(st *State, fr *Frame, v *ssa.Convert) T {
	from, to := v.X.Type(), v.Type()
	xv := x.term(st, v.X)
	fu, tu := from.Underlying(), to.Underlying()
	switch {
	case isInteger(from) && isInteger(to):
		flo, fhi, ok1 := intRange(from)
		tlo, thi, ok2 := intRange(to)
		if ok1 && ok2 && flo.Cmp(tlo) >= 0 && fhi.Cmp(thi) <= 0 {
			return xv
		}
		return st.name(v.Name(), wrapInt(to, xv))
	case isInteger(from) && isFloat(to):
		return app(SFloat, "xf-fin", app(SReal, "to_real", xv))
	case isFloat(from) && isInteger(to):
		lo, hi, _ := intRange(to)
		fin := T{"((_ is xf-fin) " + xv.S + ")", SBool}
		val := app(SReal, "xf-val", xv)
		inRange := and(fin, app(SBool, ">", val, app(SReal, "to_real", app(SInt, "-", mkBig(lo), mkInt(1)))), app(SBool, "<", val, app(SReal, "to_real", app(SInt, "+", mkBig(hi), mkInt(1)))))
		x.require(st, fr, "conv/f2i", inRange, v.Pos(), "float to integer conversion of NaN/Inf/out-of-range value (implementation-defined result)")
		// truncation toward zero
		return st.name(v.Name(), T{fmt.Sprintf("(ite (>= %[1]s 0.0) (to_int %[1]s) (- (to_int (- %[1]s))))", val.S), SInt})
	case isFloat(from) && isFloat(to):
		return xv
	case isString(to):
		if s, ok := fu.(*types.Slice); ok {
			if b, ok := s.Elem().Underlying().(*types.Basic); ok && b.Kind() == types.Uint8 {
				str := st.name(v.Name(), strOfBytes(sel(st.arrHeap(s.Elem()), sliceArr(xv)), sliceOff(xv), sliceLen(xv)))
				st.assume(eq(app(SInt, "str.len", str), sliceLen(xv)))
				x.linkStrBytes(st, str, sel(st.arrHeap(s.Elem()), sliceArr(xv)), sliceOff(xv))
				return str
			}
			unsupported("string(%s)", from)
		}
		if isInteger(from) {
			unsupported("string(rune)")
		}
		return xv
	case isString(from):
		if s, ok := tu.(*types.Slice); ok {
			if b, ok := s.Elem().Underlying().(*types.Basic); ok && b.Kind() == types.Uint8 {
				r := st.allocate("bytes")
				content := bytesOfStr(xv)
				st.setHeap(arrHeapName(s.Elem()), store(st.arrHeap(s.Elem()), r, content))
				ln := app(SInt, "str.len", xv)
				st.assume(eq(strOfBytes(content, mkInt(0), ln), xv))
				x.linkStrBytes(st, xv, content, mkInt(0))
				cp := fresh("cap", SInt)
				st.assume(app(SBool, ">=", cp, ln))
				st.assume(app(SBool, "<=", cp, T{"140737488355328", SInt}))
				// []byte("") may be a non-nil empty slice; []byte(s) is never nil
				return mkSlice(r, mkInt(0), ln, cp)
			}
		}
		unsupported("conversion from string to %s", to)
	case isPointerLike(from) && isPointerLike(to):
		return xv
	}
	if sortOf(from) == sortOf(to) {
		return xv
	}
	unsupported("conversion %s -> %s", from, to)
	return T{}
}

// linkStrBytes relates a string and the bytes it was converted from/to,
// character by character (quantified; used only where both views are read).
func (x *Exec) linkStrBytes(st *State, s T, arr T, off T) {
	s = st.name("str", s)
	a := st.name("arr", arr)
	st.assume(T{fmt.Sprintf("(forall ((i Int)) (! (=> (and (<= 0 i) (< i (str.len %[1]s))) (= (str.to_code (str.at %[1]s i)) (select %[2]s (+ %[3]s i)))) :pattern ((select %[2]s (+ %[3]s i))) :pattern ((str.at %[1]s i))))", s.S, a.S, off.S), SBool})
}

func isNilConst(v ssa.Value) bool {
	c, ok := v.(*ssa.Const)
	return ok && c.Value == nil
}

func (x *Exec) floatOp(op token.Token, a, b T) T {
	fin := func(t T) string { return "((_ is xf-fin) " + t.S + ")" }
	nan := func(t T) string { return "((_ is xf-nan) " + t.S + ")" }
	pinf := func(t T) string { return "((_ is xf-pinf) " + t.S + ")" }
	ninf := func(t T) string { return "((_ is xf-ninf) " + t.S + ")" }
	av, bv := "(xf-val "+a.S+")", "(xf-val "+b.S+")"
	switch op {
	case token.ADD, token.SUB:
		bb := b
		if op == token.SUB {
			bb = xfNeg(b)
		}
		bvv := "(xf-val " + bb.S + ")"
		return T{fmt.Sprintf("(ite (or %s %s) xf-nan (ite (and %s %s) (xf-fin (+ %s %s)) (ite %s (ite %s xf-nan %s) (ite %s xf-nan %s))))",
			nan(a), nan(bb), fin(a), fin(bb), av, bvv,
			fin(a), "false", bb.S, // a finite, b infinite -> b
			fmt.Sprintf("(and (not %s) (or (and %s %s) (and %s %s)))", fin(bb), pinf(a), ninf(bb), ninf(a), pinf(bb)), a.S), SFloat}
	case token.MUL:
		sign := fmt.Sprintf("(xor (or %s (and %s (< %s 0.0))) (or %s (and %s (< %s 0.0))))", ninf(a), fin(a), av, ninf(b), fin(b), bv)
		zeroA := fmt.Sprintf("(and %s (= %s 0.0))", fin(a), av)
		zeroB := fmt.Sprintf("(and %s (= %s 0.0))", fin(b), bv)
		return T{fmt.Sprintf("(ite (or %s %s) xf-nan (ite (and %s %s) (xf-fin (* %s %s)) (ite (or %s %s) xf-nan (ite %s xf-ninf xf-pinf))))",
			nan(a), nan(b), fin(a), fin(b), av, bv, zeroA, zeroB, sign), SFloat}
	case token.QUO:
		zeroB := fmt.Sprintf("(and %s (= %s 0.0))", fin(b), bv)
		zeroA := fmt.Sprintf("(and %s (= %s 0.0))", fin(a), av)
		sign := fmt.Sprintf("(xor (or %s (and %s (< %s 0.0))) (or %s (and %s (< %s 0.0))))", ninf(a), fin(a), av, ninf(b), fin(b), bv)
		return T{fmt.Sprintf("(ite (or %s %s) xf-nan (ite (and %s %s (not %s)) (xf-fin (/ %s %s)) (ite (or (and %s %s) (and (not %s) (not %s))) xf-nan (ite (and %s (not %s)) (xf-fin 0.0) (ite %s xf-ninf xf-pinf)))))",
			nan(a), nan(b), fin(a), fin(b), zeroB, av, bv, zeroA, zeroB, fin(a), fin(b), fin(a), zeroB, sign), SFloat}
	}
	unsupported("float operator %s", op)
	return T{}
}

// ---------------------------------------------------------------------------
// Lock discipline: fields declared `protected ... by T.mu`.

type protInfo struct {
	mu        T // materialised address of the guarding mutex
	exclusive bool
	field     string
}

func (x *Exec) protInfoFor(st *State, root T, stt types.Type, pr Protected, fname string) *protInfo {
	muName := pr.Mu[strings.LastIndexByte(pr.Mu, '.')+1:]
	strct := stt.Underlying().(*types.Struct)
	for i := 0; i < strct.NumFields(); i++ {
		if strct.Field(i).Name() == muName {
			a := &Addr{kind: aStruct, root: root, rootT: stt, typ: stt}
			ma := a.extend(pstep{field: i, cont: stt}, strct.Field(i).Type())
			return &protInfo{mu: x.materialize(st, Val{addr: ma}), exclusive: pr.Exclusive, field: pr.Field}
		}
	}
	unsupported("protected: no field %s in %s", muName, stt)
	return nil
}

func mstateOf(st *State, mu T) T {
	return sel(st.heap("Gf mstate", arraySort(SInt, SInt)), mu)
}

// lockCheck: an access to a protected field needs the guarding mutex
// (write or exclusive accesses: held exclusively; reads: held in any mode).
func (x *Exec) lockCheck(st *State, fr *Frame, p *protInfo, write bool, pos token.Pos, what string) {
	top := topFrame(fr)
	if top.contract != nil && top.contract.Flags["nolockcheck"] {
		return
	}
	ms := mstateOf(st, p.mu)
	var goal T
	if write || p.exclusive {
		goal = eq(ms, mkInt(1))
	} else {
		goal = or(eq(ms, mkInt(1)), eq(ms, mkInt(2)))
	}
	x.addCheck(st, fr, "lock/held-at-access", goal, pos, what+" without holding the guarding mutex (exclusively where required)")
	st.assume(goal)
}

// allocHook assumes the `onalloc` fact of a struct object allocated in the function being executed
// at the moment the object is handed on (see OnAlloc).
func (x *Exec) allocHook(st *State, v ssa.Value) {
	if len(x.onAllocs) == 0 {
		return
	}
	a, ok := v.(*ssa.Alloc)
	if !ok {
		return
	}
	n, ok := deref(a.Type()).(*types.Named)
	if !ok || n.Obj().Pkg() == nil {
		return
	}
	oa := x.onAllocs[n.Obj().Pkg().Path()+"."+n.Obj().Name()]
	if oa == nil {
		return
	}
	ref := x.term(st, v)
	ctx := &EvalCtx{x: x, st: st, old: st, env: map[string]SV{oa.Var: {t: ref, typ: a.Type()}}, pkg: x.typesPkg(oa.Pkg), sf: oa.SF}
	st.assume(ctx.boolOf(oa.E))
	x.note("ASSUMED when a %s is handed on by the function that built it: %s", oa.Type, oa.Text)
}
