#!/usr/bin/env python3
"""usage: tools_conj.py file.smt2 -- splits the final (assert (not (and c1 c2 ...))) [or (=> A (and ...))] and checks each conjunct separately"""
import sys,subprocess,re
src=open(sys.argv[1]).read()
i=src.rindex('(assert (not ')
head=src[:i]; goal=src[i+len('(assert (not '):]
# goal ends with "))\n(check-sat)..."
j=goal.rindex('(check-sat)')
goal=goal[:j].rstrip()[:-2]
def split(s):
    # s = "(and c1 c2 ...)"
    assert s.startswith('(and ')
    out=[];d=0;cur='';body=s[5:-1]
    k=0
    while k<len(body):
        ch=body[k]
        if ch=='|':
            e=body.index('|',k+1); cur+=body[k:e+1]; k=e+1; continue
        if ch=='"':
            e=body.index('"',k+1); cur+=body[k:e+1]; k=e+1; continue
        if ch=='(':d+=1
        if ch==')':d-=1
        if ch==' ' and d==0:
            if cur: out.append(cur); cur=''
        else: cur+=ch
        k+=1
    if cur: out.append(cur)
    return out
cs=split(goal) if goal.startswith('(and ') else [goal]
print(len(cs),'conjuncts')
for n,c in enumerate(cs):
    open('/var/tmp/cj.smt2','w').write(head+'(assert (not '+c+'))\n(check-sat)\n')
    r=subprocess.run(['z3-new','-T:10','/var/tmp/cj.smt2'],capture_output=True,text=True).stdout.split('\n')[0]
    if r!='unsat': print(n,r,c[:300])
