#!/bin/bash
# usage: tools_inst.sh <prop> <only-regexp> <dump-regexp> <level>  -- per-instance z3 results for matching obligations
cd /verif; rm -f .work/dump_*; ./check $1 --only "$2" --dump "$3" --dump-level $4 >/dev/null 2>&1
for f in .work/dump_*; do r=$( (time timeout 40 z3-new -T:${5:-10} "$f") 2>&1 | grep -v "^$\|error\|user\|sys" | tr '\n' ' '); echo "$r $(basename $f)"; done | cut -c1-140
