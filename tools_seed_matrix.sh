#!/bin/bash
# Runs every seeded change under /verif/seeded/*/ against the check of its property on a scratch
# worktree of /repo (removed afterwards) and records which obligations fail.
# usage: tools_seed_matrix.sh [id ...]
set -u
cd /verif
ids=("$@"); [ ${#ids[@]} -eq 0 ] && ids=($(ls seeded))
for id in "${ids[@]}"; do
  prop=$(python3 -c "import json;print(json.load(open('/verif/seeded/$id/meta.json'))['property'])")
  W=/var/tmp/seedrun-$id-$$
  git -C /repo worktree add -q --detach $W HEAD || continue
  if git -C $W apply /verif/seeded/$id/patch.diff; then
    out=$(VERIF_REPO=$W timeout 1500 /verif/engine/govc check $prop 2>&1)
    echo "$out" | grep -E "^failed obligation|^UNDECIDED|^ENGINE|^VIOLATION|^property" > /verif/seeded/$id/detection.txt
    nviol=$(echo "$out" | grep -c "^VIOLATION")
    echo "$id ($prop): $nviol violation line(s): $(echo "$out" | grep "^failed obligation" | sed 's/failed obligation: //' | cut -d' ' -f1 | tr '\n' ' ')"
  else
    echo "$id: patch does not apply"
  fi
  git -C /repo worktree remove --force $W
done
