#!/bin/bash
# Must-fail corpus: every hand-written mutant (selftest/mutants/*.mut) and every seeded change (seeded/*/patch.diff)
# has to be reported as a VIOLATION by the check of its property. Mutants are applied to a scratch copy of /repo's
# working tree under /var/tmp (removed afterwards); seeded changes run on scratch worktrees.
cd /verif
miss=0
scratch=/var/tmp/verif-selftest-$$
rm -rf $scratch && mkdir -p $scratch && rsync -a --exclude .git /repo/ $scratch/
trap 'rm -rf $scratch /verif/evidence/*.json.*' EXIT
for m in selftest/mutants/*.mut; do
  p=$(basename $m .mut)
  out=$(VERIF_REPO=$scratch VERIF_EVIDENCE_SUFFIX=.selftest ./tools_mut.py $p $m 2>&1)
  echo "$out" | grep -E "MISSED|caught=" | sed "s/^/$p: /"
  echo "$out" | grep -q "MISSED" && miss=1
done
out=$(./tools_seed_matrix.sh 2>&1)
echo "$out"
echo "$out" | grep -q ": 0 violation" && miss=1
exit $miss
