#!/bin/bash
# Must-fail corpus: every hand-written mutant (selftest/mutants/*.mut) and every seeded change (seeded/*/patch.diff)
# has to be reported as a VIOLATION by the check of its property. Mutants are applied to /repo's working tree
# (which must be clean) and reverted; seeded changes run on scratch worktrees.
cd /verif
miss=0
for m in selftest/mutants/*.mut; do
  p=$(basename $m .mut)
  out=$(./tools_mut.py $p $m 2>&1)
  echo "$out" | grep -E "MISSED|caught=" | sed "s/^/$p: /"
  echo "$out" | grep -q "MISSED" && miss=1
done
out=$(./tools_seed_matrix.sh 2>&1)
echo "$out"
echo "$out" | grep -q ": 0 violation" && miss=1
exit $miss
