#!/bin/sh
# usage: tools_seedtest.sh <diff> <prop>...   -- applies a seeded change to /repo, runs the checks, reverts
d=$1; shift
cd /repo && git apply "$d" || { echo "APPLY FAILED"; exit 2; }
for p in "$@"; do (cd /verif && timeout 1200 ./check $p 2>&1 | grep -E "VIOLATION|UNDECIDED|ENGINE|^property|failed obl|KNOWN" | cut -c1-220); done
git -C /repo checkout -- . ; git -C /repo status --short | head -3
